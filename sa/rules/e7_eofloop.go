package rules

import (
	"fmt"
	"go/constant"
	"go/token"
	"go/types"
	"sort"
	"strings"

	"golang.org/x/tools/go/ssa"
)

// E7 — token loops leave at end of input.
//
// Sparse conditional constant propagation over go/ssa in the *EOF steady
// state*: the underlying reader is exhausted, so (*bufio.Reader).ReadRune
// returns a non-nil error. Everything else follows from the code: read()
// returns the package's eof rune, Scan() returns the EOF token, the parser's
// scan wrappers return EOF (the one-token pushback buffer holds what the last
// Scan stored: abstract field contents = join over all stores), small
// predicates fold on constants. For every natural loop that consumes input the
// engine then iterates the loop body abstractly: iteration 1 starts from
// unknown header φ-values (any state in which the loop may be when the input
// runs out), iteration k+1 from the values carried by iteration k's executable
// back edges. The loop is discharged when some iteration has no executable
// back edge; a repeated header state with an executable back edge is reported.

var eofMaxIter = 5

type avKind int

const (
	avBot avKind = iota
	avConst
	avNonNil // a non-nil value of pointer/interface type (e.g. an error that was created)
	avTop
)

type av struct {
	k     avKind
	c     constant.Value // for avConst; nil means the nil constant
	isNil bool
}

var (
	avT = av{k: avTop}
	avB = av{k: avBot}
)

func avK(c constant.Value) av { return av{k: avConst, c: c} }
func avNil() av               { return av{k: avConst, isNil: true} }

func (a av) String() string {
	switch a.k {
	case avBot:
		return "⊥"
	case avTop:
		return "⊤"
	case avNonNil:
		return "non-nil"
	}
	if a.isNil {
		return "nil"
	}
	return a.c.ExactString()
}

func (a av) eq(b av) bool {
	if a.k != b.k {
		return false
	}
	if a.k != avConst {
		return true
	}
	if a.isNil || b.isNil {
		return a.isNil == b.isNil
	}
	return a.c.Kind() == b.c.Kind() && constant.Compare(a.c, token.EQL, b.c)
}

func avJoin(a, b av) av {
	if a.k == avBot {
		return b
	}
	if b.k == avBot {
		return a
	}
	if a.eq(b) {
		return a
	}
	return avT
}

type eofEngine struct {
	c        *Ctx
	memo     map[string]*eofFn
	busy     map[string]bool
	fieldMem map[string]av
	fieldBsy map[string]bool
	stores   map[string][]*ssa.Store // field key -> stores (whole module scope given)
	scope    []*ssa.Function
	depth    int
	readsInp map[*ssa.Function]bool
	notes    []string
	neutral  bool       // no EOF assumption: used for values defined before a loop
	neut     *eofEngine // lazily created neutral twin
}

// neutralTwin: same engine without the end-of-input assumption. Values that
// are defined outside a loop were computed while input may still have been
// available, so inside the loop they are only as constant as they are without
// the assumption.
func (e *eofEngine) neutralTwin() *eofEngine {
	if e.neutral {
		return e
	}
	if e.neut == nil {
		e.neut = &eofEngine{c: e.c, memo: map[string]*eofFn{}, busy: map[string]bool{}, fieldMem: map[string]av{}, fieldBsy: map[string]bool{},
			stores: e.stores, scope: e.scope, readsInp: e.readsInp, neutral: true}
	}
	return e.neut
}

type eofFn struct {
	fn    *ssa.Function
	args  []av
	val   map[ssa.Value]av
	execB map[*ssa.BasicBlock]bool
	execE map[[2]int]bool
	ret   []av
}

func newEOFEngine(c *Ctx, scope []*ssa.Function) *eofEngine {
	e := &eofEngine{c: c, memo: map[string]*eofFn{}, busy: map[string]bool{}, fieldMem: map[string]av{}, fieldBsy: map[string]bool{},
		stores: map[string][]*ssa.Store{}, scope: scope, readsInp: map[*ssa.Function]bool{}}
	for _, f := range scope {
		allInstrs(f, func(in ssa.Instruction) {
			if st, ok := in.(*ssa.Store); ok {
				if k := fieldPathKey(st.Addr); k != "" {
					e.stores[k] = append(e.stores[k], st)
				}
			}
		})
	}
	e.computeReadsInput()
	return e
}

// fieldPathKey: "pkg.Type.f.g" for &x.f.g (x of named struct type or pointer to it).
func fieldPathKey(addr ssa.Value) string {
	fa, ok := addr.(*ssa.FieldAddr)
	if !ok {
		return ""
	}
	name := fieldName(fa.X.Type(), fa.Field)
	if inner := fieldPathKey(fa.X); inner != "" {
		return inner + "." + name
	}
	n := namedOf(fa.X.Type())
	if n == nil || n.Obj().Pkg() == nil {
		return ""
	}
	return n.Obj().Pkg().Path() + "." + n.Obj().Name() + "." + name
}

func isReadRune(f *ssa.Function) bool {
	if f == nil || f.Pkg == nil || f.Signature.Recv() == nil {
		return false
	}
	if f.Pkg.Pkg.Path() != "bufio" {
		return false
	}
	switch f.Name() {
	case "ReadRune", "ReadByte", "ReadString", "ReadLine", "ReadBytes", "Read":
		return true
	}
	return false
}

func (e *eofEngine) computeReadsInput() {
	// fixpoint over static calls
	for changed := true; changed; {
		changed = false
		for _, f := range e.scope {
			if e.readsInp[f] {
				continue
			}
			hit := false
			allInstrs(f, func(in ssa.Instruction) {
				cc := callOf(in)
				if cc == nil {
					return
				}
				if cal := cc.StaticCallee(); cal != nil && (isReadRune(cal) || e.readsInp[cal]) {
					hit = true
				}
			})
			if hit {
				e.readsInp[f] = true
				changed = true
			}
		}
	}
}

func avKey(args []av) string {
	var s []string
	for _, a := range args {
		s = append(s, a.String())
	}
	return strings.Join(s, ",")
}

// summary returns the abstract results of fn called with args in the EOF steady state.
func (e *eofEngine) summary(fn *ssa.Function, args []av) []av {
	// on the second pass a callee is summarised on its inlined view (a header read by a private
	// helper that returns a small struct is then a handful of registers)
	if e.c != nil && e.c.ViewMode {
		if v := e.c.viewOf(fn); v != nil {
			fn = v
		}
	}
	n := fn.Signature.Results().Len()
	top := make([]av, n)
	for i := range top {
		top[i] = avT
	}
	if fn.Blocks == nil || e.depth > 12 {
		return top
	}
	key := fn.String() + "(" + avKey(args) + ")"
	if m, ok := e.memo[key]; ok {
		return m.ret
	}
	if e.busy[key] {
		return top
	}
	e.busy[key] = true
	e.depth++
	st := e.run(fn, args, nil, nil)
	e.depth--
	delete(e.busy, key)
	e.memo[key] = st
	return st.ret
}

func (e *eofEngine) state(fn *ssa.Function) *eofFn {
	args := make([]av, len(fn.Params))
	for i := range args {
		args[i] = avT
	}
	key := fn.String() + "(" + avKey(args) + ")"
	if m, ok := e.memo[key]; ok {
		return m
	}
	e.summary(fn, args)
	if m, ok := e.memo[key]; ok {
		return m
	}
	return e.run(fn, args, nil, nil)
}

// run performs SCCP on fn. When lp != nil only the loop's blocks are
// evaluated, starting at its head, header φ-values are pinned to pinned[φ],
// and values defined outside the loop are taken from outer.
func (e *eofEngine) run(fn *ssa.Function, args []av, lp *loop, pin map[*ssa.Phi]av) *eofFn {
	st := &eofFn{fn: fn, args: args, val: map[ssa.Value]av{}, execB: map[*ssa.BasicBlock]bool{}, execE: map[[2]int]bool{}}
	var outer *eofFn
	if lp != nil {
		outer = e.neutralTwin().state(fn)
	}
	inScope := func(b *ssa.BasicBlock) bool { return lp == nil || lp.Blocks[b] }
	var get func(v ssa.Value) av
	get = func(v ssa.Value) av {
		switch x := v.(type) {
		case *ssa.Const:
			if x.Value == nil {
				if x.IsNil() {
					return avNil()
				}
				// zero value of a non-nillable type (struct, array) or of string/number
				switch t := x.Type().Underlying().(type) {
				case *types.Basic:
					if t.Info()&types.IsString != 0 {
						return avK(constant.MakeString(""))
					}
					if t.Info()&types.IsBoolean != 0 {
						return avK(constant.MakeBool(false))
					}
					if t.Info()&types.IsNumeric != 0 {
						return avK(constant.MakeInt64(0))
					}
				}
				return avT
			}
			return avK(x.Value)
		case *ssa.Parameter:
			for i, p := range fn.Params {
				if p == x && i < len(args) {
					return args[i]
				}
			}
			return avT
		case *ssa.Global, *ssa.FreeVar, *ssa.Function, *ssa.Builtin:
			return avT
		}
		if in, ok := v.(ssa.Instruction); ok && lp != nil && !lp.Blocks[in.Block()] {
			if a, ok := outer.val[v]; ok {
				return a
			}
			return avT
		}
		if a, ok := st.val[v]; ok {
			return a
		}
		return avB
	}
	var workB []*ssa.BasicBlock
	markEdge := func(from, to *ssa.BasicBlock) {
		k := [2]int{from.Index, to.Index}
		if st.execE[k] {
			return
		}
		st.execE[k] = true
		if !inScope(to) {
			return
		}
		if lp != nil && to == lp.Head {
			return // back edge: recorded, not followed
		}
		workB = append(workB, to)
	}
	start := fn.Blocks[0]
	if lp != nil {
		start = lp.Head
	}
	workB = append(workB, start)
	st.execB[start] = true
	changedAny := true
	for iter := 0; iter < 200 && (len(workB) > 0 || changedAny); iter++ {
		changedAny = false
		blocks := workB
		workB = nil
		// (re-)evaluate all executable blocks until stable: functions are small
		for _, b := range blocks {
			st.execB[b] = true
		}
		for _, b := range fn.Blocks {
			if !st.execB[b] || !inScope(b) {
				continue
			}
			for _, in := range b.Instrs {
				switch x := in.(type) {
				case *ssa.If:
					cv := get(x.Cond)
					switch {
					case cv.k == avConst && !cv.isNil && cv.c.Kind() == constant.Bool:
						if constant.BoolVal(cv.c) {
							markEdge(b, b.Succs[0])
						} else {
							markEdge(b, b.Succs[1])
						}
					case cv.k == avBot:
					default:
						markEdge(b, b.Succs[0])
						markEdge(b, b.Succs[1])
					}
				case *ssa.Jump:
					markEdge(b, b.Succs[0])
				case *ssa.Return, *ssa.Panic:
				default:
					if v, ok := in.(ssa.Value); ok {
						nv := e.eval(st, fn, x, get, lp, pin)
						old := st.val[v]
						j := avJoin(old, nv)
						if !j.eq(old) || old.k != j.k {
							st.val[v] = j
							changedAny = true
						}
					}
				}
			}
		}
	}
	// results
	nres := fn.Signature.Results().Len()
	st.ret = make([]av, nres)
	for i := range st.ret {
		st.ret[i] = avB
	}
	if lp == nil {
		for _, b := range fn.Blocks {
			if !st.execB[b] {
				continue
			}
			if rt, ok := b.Instrs[len(b.Instrs)-1].(*ssa.Return); ok {
				for i, r := range rt.Results {
					if i < nres {
						st.ret[i] = avJoin(st.ret[i], get(r))
					}
				}
			}
		}
		for i := range st.ret {
			if st.ret[i].k == avBot {
				st.ret[i] = avT // no executable return found (panic / infinite loop): unknown
			}
		}
	}
	return st
}

func (e *eofEngine) eval(st *eofFn, fn *ssa.Function, in ssa.Instruction, get func(ssa.Value) av, lp *loop, pin map[*ssa.Phi]av) av {
	switch x := in.(type) {
	case *ssa.Phi:
		if pin != nil {
			if a, ok := pin[x]; ok {
				return a
			}
		}
		r := avB
		for i, ed := range x.Edges {
			p := x.Block().Preds[i]
			if st.execE[[2]int{p.Index, x.Block().Index}] {
				r = avJoin(r, get(ed))
			}
		}
		return r
	case *ssa.BinOp:
		return evalBinOp(x.Op, get(x.X), get(x.Y), x.Type())
	case *ssa.UnOp:
		a := get(x.X)
		switch x.Op {
		case token.NOT:
			if a.k == avConst && !a.isNil && a.c.Kind() == constant.Bool {
				return avK(constant.MakeBool(!constant.BoolVal(a.c)))
			}
			if a.k == avBot {
				return avB
			}
			return avT
		case token.SUB:
			if a.k == avConst && !a.isNil && a.c.Kind() == constant.Int {
				return avK(constant.UnaryOp(token.SUB, a.c, 0))
			}
			return avT
		case token.MUL:
			return e.load(st, fn, x, get, lp)
		}
		return avT
	case *ssa.Convert:
		a := get(x.X)
		if a.k == avConst && !a.isNil {
			if bt, ok := x.Type().Underlying().(*types.Basic); ok {
				switch {
				case bt.Info()&types.IsInteger != 0 && a.c.Kind() == constant.Int:
					return a
				case bt.Info()&types.IsString != 0 && a.c.Kind() == constant.String:
					return a
				case bt.Info()&types.IsString != 0 && a.c.Kind() == constant.Int:
					if n, ok := constant.Int64Val(a.c); ok {
						return avK(constant.MakeString(string(rune(n))))
					}
				}
			}
			return avT
		}
		if a.k == avBot {
			return avB
		}
		return avT
	case *ssa.ChangeType:
		return get(x.X)
	case *ssa.MakeInterface:
		a := get(x.X)
		if a.k == avBot {
			return avB
		}
		if a.k == avConst && a.isNil {
			// a nil pointer in an interface is a non-nil interface; keep unknown
			return avT
		}
		if _, isPtr := x.X.Type().Underlying().(*types.Pointer); isPtr && a.k == avNonNil {
			return av{k: avNonNil}
		}
		if a.k == avConst {
			return a
		}
		return avT
	case *ssa.Extract:
		if call, ok := x.Tuple.(*ssa.Call); ok {
			if t, ok := st.tuples()[call]; ok && x.Index < len(t) {
				return t[x.Index]
			}
			if get(call).k == avBot {
				return avB
			}
		}
		return avT
	case *ssa.Call:
		res := e.call(st, fn, x, get)
		st.tuples()[x] = res
		if len(res) == 1 {
			return res[0]
		}
		// a tuple: mark evaluated
		return avT
	case *ssa.Alloc, *ssa.MakeSlice, *ssa.MakeMap, *ssa.MakeChan, *ssa.MakeClosure:
		return av{k: avNonNil}
	case *ssa.FieldAddr, *ssa.IndexAddr:
		return avT
	}
	return avT
}

var tupleStore = map[*eofFn]map[*ssa.Call][]av{}

func (st *eofFn) tuples() map[*ssa.Call][]av {
	m := tupleStore[st]
	if m == nil {
		m = map[*ssa.Call][]av{}
		tupleStore[st] = m
	}
	return m
}

func evalBinOp(op token.Token, a, b av, t types.Type) av {
	if a.k == avBot || b.k == avBot {
		return avB
	}
	// nil comparisons
	if op == token.EQL || op == token.NEQ {
		res := func(eq bool) av {
			if op == token.NEQ {
				eq = !eq
			}
			return avK(constant.MakeBool(eq))
		}
		aNil := a.k == avConst && a.isNil
		bNil := b.k == avConst && b.isNil
		switch {
		case aNil && bNil:
			return res(true)
		case (aNil && b.k == avNonNil) || (bNil && a.k == avNonNil):
			return res(false)
		}
	}
	if a.k != avConst || b.k != avConst || a.isNil || b.isNil {
		return avT
	}
	switch op {
	case token.EQL, token.NEQ, token.LSS, token.LEQ, token.GTR, token.GEQ:
		if a.c.Kind() != b.c.Kind() {
			if (a.c.Kind() == constant.Int || a.c.Kind() == constant.Float) && (b.c.Kind() == constant.Int || b.c.Kind() == constant.Float) {
				return avK(constant.MakeBool(constant.Compare(constant.ToFloat(a.c), op, constant.ToFloat(b.c))))
			}
			return avT
		}
		return avK(constant.MakeBool(constant.Compare(a.c, op, b.c)))
	case token.ADD, token.SUB, token.MUL:
		if a.c.Kind() == constant.Int && b.c.Kind() == constant.Int {
			return avK(constant.BinaryOp(a.c, op, b.c))
		}
		if op == token.ADD && a.c.Kind() == constant.String && b.c.Kind() == constant.String {
			return avK(constant.BinaryOp(a.c, op, b.c))
		}
	case token.LAND, token.LOR:
		if a.c.Kind() == constant.Bool && b.c.Kind() == constant.Bool {
			return avK(constant.BinaryOp(a.c, op, b.c))
		}
	}
	return avT
}

// load: abstract value of *addr.
func (e *eofEngine) load(st *eofFn, fn *ssa.Function, u *ssa.UnOp, get func(ssa.Value) av, lp *loop) av {
	switch a := u.X.(type) {
	case *ssa.Global:
		return e.globalVal(a)
	case *ssa.FieldAddr:
		if e.neutral {
			return avT
		}
		if k := fieldPathKey(a); k != "" {
			return e.fieldVal(k)
		}
	case *ssa.Alloc:
		// flow-insensitive join of the stores to the local cell
		r := avB
		if refs := a.Referrers(); refs != nil {
			for _, ref := range *refs {
				switch s := ref.(type) {
				case *ssa.Store:
					if s.Addr != ssa.Value(a) {
						return avT
					}
					r = avJoin(r, get(s.Val))
					if get(s.Val).k == avBot {
						// store not evaluated yet in this pass (or unreachable): be conservative
						// once the block is executable; unreachable stores contribute nothing
						if st.execB[s.Block()] || (lp != nil && !lp.Blocks[s.Block()]) {
							r = avJoin(r, avT)
						}
					}
				case *ssa.UnOp, *ssa.DebugRef:
				default:
					return avT
				}
			}
		}
		if r.k == avBot {
			return avT
		}
		return r
	}
	return avT
}

func (e *eofEngine) globalVal(g *ssa.Global) av {
	key := "g:" + g.String()
	if a, ok := e.fieldMem[key]; ok {
		return a
	}
	r := avB
	// stores anywhere in the program to this global
	n := 0
	for f := range e.c.P.AllFns {
		if f.Pkg != g.Pkg {
			continue
		}
		allInstrs(f, func(in ssa.Instruction) {
			if st, ok := in.(*ssa.Store); ok && st.Addr == ssa.Value(g) {
				n++
				if k := constOf(st.Val); k != nil {
					r = avJoin(r, avK(k))
				} else {
					r = avJoin(r, avT)
				}
			}
		})
	}
	if n == 0 {
		// no store at all: zero value
		r = avT
	}
	e.fieldMem[key] = r
	return r
}

// fieldVal: join, over every store to the field in scope, of the abstract
// stored value in the storing function's EOF steady state.
func (e *eofEngine) fieldVal(key string) av {
	if a, ok := e.fieldMem[key]; ok {
		return a
	}
	if e.fieldBsy[key] {
		return avT
	}
	e.fieldBsy[key] = true
	r := avB
	for _, s := range e.stores[key] {
		fs := e.state(s.Parent())
		v, ok := fs.val[s.Val]
		if k, isK := s.Val.(*ssa.Const); isK {
			if k.Value != nil {
				v, ok = avK(k.Value), true
			} else if k.IsNil() {
				v, ok = avNil(), true
			} else {
				v, ok = avT, true
			}
		}
		if !ok || v.k == avBot {
			if !fs.execB[s.Block()] {
				continue // store unreachable in the steady state
			}
			v = avT
		}
		r = avJoin(r, v)
	}
	delete(e.fieldBsy, key)
	if r.k == avBot {
		r = avT
	}
	e.fieldMem[key] = r
	return r
}

func (e *eofEngine) call(st *eofFn, fn *ssa.Function, call *ssa.Call, get func(ssa.Value) av) []av {
	cc := call.Common()
	nres := 1
	if t, ok := call.Type().(*types.Tuple); ok {
		nres = t.Len()
	}
	top := make([]av, nres)
	for i := range top {
		top[i] = avT
	}
	if b, ok := cc.Value.(*ssa.Builtin); ok {
		if b.Name() == "len" {
			a := get(cc.Args[0])
			if a.k == avConst && !a.isNil && a.c.Kind() == constant.String {
				return []av{avK(constant.MakeInt64(int64(len(constant.StringVal(a.c)))))}
			}
		}
		return top
	}
	cal := cc.StaticCallee()
	if cal == nil {
		return top
	}
	if isReadRune(cal) && e.neutral {
		return top
	}
	if isReadRune(cal) {
		// the input is exhausted: the read fails
		res := make([]av, nres)
		for i := range res {
			res[i] = avT
		}
		res[nres-1] = av{k: avNonNil}
		return res
	}
	if cal.Pkg != nil {
		switch cal.Pkg.Pkg.Path() + "." + cal.Name() {
		case "errors.New", "fmt.Errorf":
			return []av{{k: avNonNil}}
		case "strings.ToUpper", "strings.ToLower":
			a := get(cc.Args[0])
			if a.k == avConst && !a.isNil && a.c.Kind() == constant.String {
				s := constant.StringVal(a.c)
				if cal.Name() == "ToUpper" {
					return []av{avK(constant.MakeString(strings.ToUpper(s)))}
				}
				return []av{avK(constant.MakeString(strings.ToLower(s)))}
			}
			return top
		case "unicode.IsDigit", "unicode.IsLetter", "unicode.IsSpace":
			a := get(cc.Args[0])
			if a.k == avConst && !a.isNil && a.c.Kind() == constant.Int {
				if n, ok := constant.Int64Val(a.c); ok && n == 0 {
					return []av{avK(constant.MakeBool(false))}
				}
			}
			return top
		}
	}
	if !e.c.P.InModule(cal) || cal.Blocks == nil {
		return top
	}
	args := make([]av, len(cc.Args))
	for i, a := range cc.Args {
		args[i] = get(a)
		if args[i].k == avBot {
			// argument not evaluated yet
			res := make([]av, nres)
			for j := range res {
				res[j] = avB
			}
			return res
		}
		// receivers and other reference arguments carry no constant information
		if args[i].k == avNonNil {
			args[i] = avT
		}
	}
	res := e.summary(cal, args)
	if len(res) != nres {
		return top
	}
	return res
}

// ---------------------------------------------------------------------------
// loop obligations

type eofLoopVerdict struct {
	fn     *ssa.Function
	lp     *loop
	kind   string // "token", "bounded", "unknown"
	ok     bool
	iters  int
	detail string
}

// boundedLoop recognises range loops and counter loops.
func boundedLoop(fn *ssa.Function, lp *loop) (bool, string) {
	h := lp.Head
	// range over slice/string/map/channel: header comment set by go/ssa
	if strings.HasPrefix(h.Comment, "rangeindex.loop") || strings.HasPrefix(h.Comment, "rangeiter.loop") || strings.HasPrefix(h.Comment, "rangechan.loop") || strings.HasPrefix(h.Comment, "rangeint.loop") {
		return true, "range loop (" + h.Comment + ")"
	}
	// counter loop: the exit condition compares a φ that advances by a
	// non-zero constant on every back edge with a value defined outside the loop
	for b := range lp.Blocks {
		ifi, ok := b.Instrs[len(b.Instrs)-1].(*ssa.If)
		if !ok {
			continue
		}
		exits := !lp.Blocks[b.Succs[0]] || !lp.Blocks[b.Succs[1]]
		if !exits {
			continue
		}
		bo, ok := ifi.Cond.(*ssa.BinOp)
		if !ok {
			continue
		}
		for _, pair := range [][2]ssa.Value{{bo.X, bo.Y}, {bo.Y, bo.X}} {
			phi, ok := pair[0].(*ssa.Phi)
			if !ok || phi.Block() != h || !isIntType(phi.Type()) {
				continue
			}
			if in, ok := pair[1].(ssa.Instruction); ok && lp.Blocks[in.Block()] {
				if _, isCall := pair[1].(*ssa.Call); !isCall {
					continue
				}
				// a getter such as len()/NbSequences() evaluated in the header is accepted
			}
			adv := true
			sign := 0
			for i, e := range phi.Edges {
				if !lp.Blocks[h.Preds[i]] {
					continue
				}
				step, ok := e.(*ssa.BinOp)
				if !ok || (step.Op != token.ADD && step.Op != token.SUB) || step.X != ssa.Value(phi) {
					adv = false
					break
				}
				k, ok := constInt(step.Y)
				if !ok || k == 0 {
					adv = false
					break
				}
				s := 1
				if (step.Op == token.SUB) != (k < 0) {
					s = -1
				}
				if sign != 0 && sign != s {
					adv = false
				}
				sign = s
			}
			if adv && sign != 0 && b == h {
				return true, "counter loop on " + phi.Comment
			}
		}
	}
	return false, ""
}

// checkLoop runs the iteration scheme on one loop.
func (e *eofEngine) checkLoop(fn *ssa.Function, lp *loop) eofLoopVerdict {
	v := eofLoopVerdict{fn: fn, lp: lp}
	consumes := false
	for b := range lp.Blocks {
		for _, in := range b.Instrs {
			if cc := callOf(in); cc != nil {
				if cal := cc.StaticCallee(); cal != nil && (isReadRune(cal) || e.readsInp[cal]) {
					consumes = true
				}
			}
		}
	}
	if ok, why := boundedLoop(fn, lp); ok {
		v.kind, v.ok, v.detail = "bounded", true, why
		return v
	}
	if !consumes {
		v.kind, v.detail = "unknown", "the loop neither consumes input nor is a range/counter loop"
		return v
	}
	v.kind = "token"
	var phis []*ssa.Phi
	for _, in := range lp.Head.Instrs {
		if p, ok := in.(*ssa.Phi); ok {
			phis = append(phis, p)
		}
	}
	pin := map[*ssa.Phi]av{}
	for _, p := range phis {
		pin[p] = avT
	}
	args := make([]av, len(fn.Params))
	for i := range args {
		args[i] = avT
	}
	var history []string
	for k := 1; k <= eofMaxIter; k++ {
		st := e.run(fn, args, lp, pin)
		anyBack := false
		next := map[*ssa.Phi]av{}
		for _, p := range phis {
			next[p] = avB
		}
		for _, b := range lp.Backs {
			if !st.execE[[2]int{b.Index, lp.Head.Index}] {
				continue
			}
			anyBack = true
			for _, p := range phis {
				for i, pred := range lp.Head.Preds {
					if pred != b {
						continue
					}
					var val av
					ed := p.Edges[i]
					switch x := ed.(type) {
					case *ssa.Const:
						if x.Value != nil {
							val = avK(x.Value)
						} else if x.IsNil() {
							val = avNil()
						} else {
							val = avT
						}
					default:
						if in, ok := ed.(ssa.Instruction); ok && lp.Blocks[in.Block()] {
							val = st.val[ed]
						} else if ed == ssa.Value(p) {
							val = pin[p]
						} else {
							val = e.neutralTwin().state(fn).val[ed]
						}
						if val.k == avBot {
							val = avT
						}
					}
					next[p] = avJoin(next[p], val)
				}
			}
		}
		var desc []string
		for _, p := range phis {
			nm := p.Comment
			if nm == "" {
				nm = p.Name()
			}
			desc = append(desc, nm+"="+pin[p].String())
		}
		sort.Strings(desc)
		state := strings.Join(desc, " ")
		if !anyBack {
			v.ok, v.iters = true, k
			v.detail = fmt.Sprintf("after the input is exhausted the loop is left within %d iteration(s): with header state {%s} no back edge is executable", k, state)
			return v
		}
		for _, h := range history {
			if h == state {
				v.detail = fmt.Sprintf("at end of input the loop can repeat forever: header state {%s} leads back to itself through an executable back edge (no exit condition fails on EOF)", state)
				return v
			}
		}
		history = append(history, state)
		pin = next
	}
	v.detail = fmt.Sprintf("no iteration without an executable back edge within %d abstract iterations after end of input", eofMaxIter)
	return v
}

func loopName(fn *ssa.Function, lp *loop, idx int) string {
	c := lp.Head.Comment
	if c == "" {
		c = "loop"
	}
	return fmt.Sprintf("%s #%d", c, idx)
}
