package rules

import (
	"fmt"
	"os"
	"sort"
	"strings"

	"golang.org/x/tools/go/ssa"
)

// Command-line options are package-level variables of package cmd bound to a flag in init()
// (fs.IntVar(&x, …)). A command that handles a stream of alignments reads them once per
// alignment: an option overwritten while one alignment is handled (a window converted to
// alignment coordinates stored back into the option, a default resolved in place inside the
// loop) is what the next alignment of the same run starts from.
//
// Rule: a store to a flag-bound variable inside a loop of a command function (RunE closures and
// their helpers) is allowed only if the stored value does not depend on the alignment handled
// by the loop: a constant (rootphylip = true) is accepted, a computed value is not unless the
// function is listed, with the count confirmed by reading, in flagStoreAllowed.

// flagBound: globals of package cmd whose address is handed to a pflag XxxVar/XxxVarP call in an init function.
func (c *Ctx) flagBound() map[*ssa.Global]bool {
	out := map[*ssa.Global]bool{}
	for _, fn := range c.P.SrcFuncs() {
		if fn.Pkg == nil || relPkg(c.P, fn.Pkg.Pkg.Path()) != "cmd" {
			continue
		}
		top := fn
		for top.Parent() != nil {
			top = top.Parent()
		}
		if top.Name() != "init" && !strings.HasPrefix(top.Name(), "init#") {
			continue
		}
		allInstrs(fn, func(in ssa.Instruction) {
			ci, ok := in.(ssa.CallInstruction)
			if !ok {
				return
			}
			cc := ci.Common()
			callee := cc.StaticCallee()
			if callee == nil || callee.Pkg == nil || !strings.HasSuffix(callee.Pkg.Pkg.Path(), "spf13/pflag") {
				return
			}
			if !strings.Contains(callee.Name(), "Var") {
				return
			}
			for _, a := range cc.Args {
				if g, ok := a.(*ssa.Global); ok {
					out[g] = true
				}
			}
		})
	}
	return out
}

// flagStoreAllowed: function -> number of stores to flag-bound variables inside a loop, confirmed by reading.
var flagStoreAllowed = map[string]int{}

func (c *Ctx) checkFlagsNotRewritten(rule string) {
	L := c.L
	L.Rule(rule, "no command stores a computed value to a flag-bound option variable inside a loop (per alignment, per replicate): the option the user gave is the same for every alignment of the stream")
	flags := c.flagBound()
	if len(flags) < 50 {
		L.Unknown(rule, "package cmd", "flag-bound variables", "-", fmt.Sprintf("only %d option variables found bound to flags in init functions (several hundred expected)", len(flags)))
		return
	}
	type site struct {
		fn  string
		g   string
		pos string
	}
	var inLoop []site
	nStores, nConst := 0, 0
	for _, fn := range c.P.SrcFuncs() {
		if fn.Pkg == nil && fn.Parent() == nil {
			continue
		}
		top := fn
		for top.Parent() != nil {
			top = top.Parent()
		}
		if top.Pkg == nil || relPkg(c.P, top.Pkg.Pkg.Path()) != "cmd" {
			continue
		}
		if top.Name() == "init" || strings.HasPrefix(top.Name(), "init#") {
			// closures declared in init are the RunE bodies: they count; the init body itself does not
			if fn == top {
				continue
			}
		}
		loops := naturalLoops(fn)
		inAnyLoop := func(b *ssa.BasicBlock) bool {
			for _, lp := range loops {
				if lp.Blocks[b] {
					return true
				}
			}
			return false
		}
		allInstrs(fn, func(in ssa.Instruction) {
			st, ok := in.(*ssa.Store)
			if !ok {
				return
			}
			g, ok := st.Addr.(*ssa.Global)
			if !ok || !flags[g] {
				return
			}
			nStores++
			if _, isConst := st.Val.(*ssa.Const); isConst {
				nConst++
				return // a fixed value: the same for every alignment of the stream
			}
			if inAnyLoop(st.Block()) {
				inLoop = append(inLoop, site{c.P.FuncName(fn), g.Name(), c.P.Pos(st.Pos())})
			}
		})
	}
	if nStores < 5 {
		// positive control: the pinned tree resolves defaults into a dozen option variables outside loops
		L.Unknown(rule, "package cmd", "stores to option variables", "-", fmt.Sprintf("only %d stores to flag-bound variables recognised outside init (11 on the pinned tree): the scan does not see them", nStores))
		return
	}
	sort.Slice(inLoop, func(i, j int) bool { return inLoop[i].pos < inLoop[j].pos })
	if os.Getenv("VERIF_DEBUG_FLAGS") != "" {
		for _, s := range inLoop {
			fmt.Fprintf(os.Stderr, "FLAGSTORE %s %s %s\n", s.fn, s.g, s.pos)
		}
	}
	per := map[string][]site{}
	for _, s := range inLoop {
		per[s.fn] = append(per[s.fn], s)
	}
	var fns []string
	for f := range per {
		fns = append(fns, f)
	}
	sort.Strings(fns)
	for _, f := range fns {
		ss := per[f]
		if len(ss) <= flagStoreAllowed[f] {
			L.OK(rule, f, "option stores inside loops", ss[0].pos, fmt.Sprintf("%d store(s), all confirmed by reading", len(ss)))
			continue
		}
		var w []string
		for _, s := range ss {
			w = append(w, s.g+" at "+s.pos)
		}
		L.Bad(rule, f, "option stores inside loops", ss[0].pos, fmt.Sprintf("%d store(s) to flag-bound option variables inside a loop (%d confirmed on the pinned tree): %s — what is stored while one alignment is handled is what the next alignment of the stream starts from", len(ss), flagStoreAllowed[f], strings.Join(w, ", ")))
	}
	L.Trivial(rule, "package cmd", "option variables scanned", "-", fmt.Sprintf("%d flag-bound variables, %d stores outside init (%d of a constant), %d computed values stored inside a loop", len(flags), nStores, nConst, len(inLoop)))
}
