package rules

import (
	"fmt"
	"go/token"
	"strings"

	"golang.org/x/tools/go/ssa"
)

// Size tests. A loop that inserts into a local set and decides on the size of that set
// (`if len(seen) > 1 { variable = true; break }`) must look at the size after the insertion of
// the current element: if the test comes first, the element inserted by the last iteration is
// never looked at, and the answer depends on the order of the rows.
//
// Rule: in a loop, every insertion into a local map whose size a branch of the same loop tests
// is followed, on every path to the next iteration or to the normal exit of the loop, by that
// size test — unless the size is tested again after the loop.
type sizeSite struct {
	ins   ssa.Instruction
	tests int
	ok    bool
}

func sizeTestSites(fn *ssa.Function) []sizeSite {
	var out []sizeSite
	loops := naturalLoops(fn)
	lenOfMap := func(v ssa.Value) ssa.Value {
		// len(m) → m's origin
		call, ok := v.(*ssa.Call)
		if !ok || builtinName(call.Common()) != "len" {
			return nil
		}
		if mm, ok := call.Common().Args[0].(*ssa.MakeMap); ok {
			return mm
		}
		return nil
	}
	condMap := func(ifi *ssa.If) ssa.Value {
		bo, ok := ifi.Cond.(*ssa.BinOp)
		if !ok {
			return nil
		}
		switch bo.Op {
		case token.GTR, token.GEQ, token.LSS, token.LEQ, token.EQL, token.NEQ:
		default:
			return nil
		}
		if m := lenOfMap(bo.X); m != nil {
			if _, isK := bo.Y.(*ssa.Const); isK {
				return m
			}
		}
		if m := lenOfMap(bo.Y); m != nil {
			if _, isK := bo.X.(*ssa.Const); isK {
				return m
			}
		}
		return nil
	}
	for _, lp := range loops {
		// innermost loop of each insertion only
		testBlocks := map[ssa.Value]map[*ssa.BasicBlock]bool{}
		for _, b := range blocksInOrder(lp) {
			if len(b.Instrs) == 0 {
				continue
			}
			if ifi, ok := b.Instrs[len(b.Instrs)-1].(*ssa.If); ok {
				if m := condMap(ifi); m != nil {
					if testBlocks[m] == nil {
						testBlocks[m] = map[*ssa.BasicBlock]bool{}
					}
					testBlocks[m][b] = true
				}
			}
		}
		if len(testBlocks) == 0 {
			continue
		}
		for _, b := range blocksInOrder(lp) {
			inner := true
			for _, o := range loops {
				if o != lp && o.Blocks[b] && lp.Blocks[o.Head] && o.Head != lp.Head {
					inner = false // b belongs to a loop nested in lp
				}
			}
			if !inner {
				continue
			}
			for _, in := range b.Instrs {
				mu, ok := in.(*ssa.MapUpdate)
				if !ok {
					continue
				}
				mm, ok := mu.Map.(*ssa.MakeMap)
				if !ok || testBlocks[mm] == nil {
					continue
				}
				tb := testBlocks[mm]
				// a size test of the same map after the loop makes the in-loop test an optimisation
				afterLoop := false
				allInstrs(fn, func(x ssa.Instruction) {
					if ifi, ok := x.(*ssa.If); ok && !lp.Blocks[x.Block()] && condMap(ifi) == ssa.Value(mm) {
						afterLoop = true
					}
				})
				okSite := true
				if !afterLoop && !tb[b] {
					// from the insertion, can the next iteration or the loop exit be reached without a test?
					seen := map[*ssa.BasicBlock]bool{}
					work := append([]*ssa.BasicBlock{}, b.Succs...)
					for len(work) > 0 && okSite {
						x := work[len(work)-1]
						work = work[:len(work)-1]
						if seen[x] {
							continue
						}
						seen[x] = true
						if x == lp.Head || !lp.Blocks[x] {
							okSite = false
							break
						}
						if tb[x] {
							continue
						}
						work = append(work, x.Succs...)
					}
				}
				out = append(out, sizeSite{in, len(tb), okSite})
			}
		}
	}
	return out
}

func (c *Ctx) checkSizeTests(rule string, rels ...string) {
	L := c.L
	L.Rule(rule, "in a loop, an insertion into a local map whose size a branch of the same loop tests is followed by that test on every path to the next iteration and to the normal exit (or the size is tested again after the loop): the element inserted last is looked at too")
	n := 0
	for _, fn := range c.P.SrcFuncs(rels...) {
		for _, s := range sizeTestSites(fn) {
			n++
			name := c.P.FuncName(fn)
			L.Check(s.ok, rule, name, "insertion followed by the size test", c.P.Pos(s.ins.Pos()),
				fmt.Sprintf("%d size test(s) of this map in the loop, every path from the insertion passes one", s.tests),
				"the size of the set is tested before the current element is inserted and not again: the element inserted by the last iteration is never looked at, the result depends on the order of the rows")
		}
	}
	L.Trivial(rule, strings.Join(rels, ","), "functions scanned", "-", fmt.Sprintf("%d insertion(s) into size-tested maps found", n))
	if cp := c.Controls(); cp != nil {
		fired, silent := false, false
		for _, fn := range cp.SrcFuncs() {
			for _, s := range sizeTestSites(fn) {
				if fn.Name() == "SizeTestedBeforeInsert" && !s.ok {
					fired = true
				}
				if fn.Name() == "SizeTestedAfterInsert" && s.ok {
					silent = true
				}
			}
		}
		L.ControlMustFire(rule, fired && silent, "controls/sizetest.go: a size test placed before the insertion must be flagged, after it must not")
	}
}
