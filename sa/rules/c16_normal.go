package rules

import (
	"fmt"
	"go/constant"
	"strings"

	"golang.org/x/tools/go/ssa"
)

// byteMapOf reads v as the image of a byte string under a per-byte map: a chain of
// strings/bytes.ToUpper, ToLower, Replace/ReplaceAll of one byte by one byte (all occurrences)
// and string/[]byte conversions applied to `src`. Returns the composed map (identity on src).
func byteMapOf(v ssa.Value, isSrc func(ssa.Value) bool, depth int) (m [256]byte, ok bool) {
	if depth > 10 {
		return m, false
	}
	if isSrc(v) {
		for i := range m {
			m[i] = byte(i)
		}
		return m, true
	}
	switch x := v.(type) {
	case *ssa.Convert:
		return byteMapOf(x.X, isSrc, depth+1)
	case *ssa.ChangeType:
		return byteMapOf(x.X, isSrc, depth+1)
	case *ssa.Call:
		cc := x.Common()
		f := cc.StaticCallee()
		if f == nil || f.Pkg == nil || len(cc.Args) == 0 {
			return m, false
		}
		pk := f.Pkg.Pkg.Path()
		if pk != "strings" && pk != "bytes" {
			return m, false
		}
		inner, ok := byteMapOf(cc.Args[0], isSrc, depth+1)
		if !ok {
			return m, false
		}
		var step [256]byte
		for i := range step {
			step[i] = byte(i)
		}
		oneByte := func(a ssa.Value) (byte, bool) {
			// "U" or []byte("U")
			for {
				if cv, ok := a.(*ssa.Convert); ok {
					a = cv.X
					continue
				}
				break
			}
			k, ok := a.(*ssa.Const)
			if !ok || k.Value == nil || k.Value.Kind() != constant.String {
				return 0, false
			}
			s := constant.StringVal(k.Value)
			if len(s) != 1 {
				return 0, false
			}
			return s[0], true
		}
		switch f.Name() {
		case "ToUpper":
			for i := 'a'; i <= 'z'; i++ {
				step[i] = byte(i - 'a' + 'A')
			}
		case "ToLower":
			for i := 'A'; i <= 'Z'; i++ {
				step[i] = byte(i - 'A' + 'a')
			}
		case "Replace", "ReplaceAll":
			if len(cc.Args) < 3 {
				return m, false
			}
			from, ok1 := oneByte(cc.Args[1])
			to, ok2 := oneByte(cc.Args[2])
			if !ok1 || !ok2 {
				return m, false
			}
			if f.Name() == "Replace" {
				if len(cc.Args) < 4 {
					return m, false
				}
				n, isK := constInt(cc.Args[3])
				if !isK || n >= 0 {
					return m, false
				}
			}
			step[from] = to
		default:
			return m, false
		}
		for i := range m {
			m[i] = step[inner[i]]
		}
		return m, true
	}
	return m, false
}

// checkOrfNormalisation: the text searched for ATG…stop by (*seq).LongestORF is the row with
// every letter upper-cased and U written as T — for every byte, so that lower-case and RNA input
// are searched like upper-case DNA.
func (c *Ctx) checkOrfNormalisation(rule string) {
	L := c.L
	L.Rule(rule, "the text handed to the ORF regular expression by (*seq).LongestORF is the row under the per-byte map upper(c) with U->T (composition of the ToUpper/Replace calls applied to the row, read as byte maps): 'u' and 'U' are searched as 'T', every other letter as its upper case")
	r := c.fn("align", "*seq", "LongestORF")
	if !r.ok() {
		return
	}
	fn := r.F
	isSrc := func(v ssa.Value) bool {
		_, f, base := loadedField(v)
		return base != nil && f == "sequence"
	}
	n := 0
	allInstrs(fn, func(in ssa.Instruction) {
		call, ok := in.(*ssa.Call)
		if !ok {
			return
		}
		f := call.Common().StaticCallee()
		if f == nil || f.Pkg == nil || f.Pkg.Pkg.Path() != "regexp" || !strings.HasPrefix(f.Name(), "Find") {
			return
		}
		args := call.Common().Args
		if len(args) < 2 {
			return
		}
		n++
		m, ok := byteMapOf(args[1], isSrc, 0)
		if !ok {
			L.Unknown(rule, r.label, "searched text", c.P.Pos(call.Pos()), "the searched text is not the row under a chain of ToUpper/ToLower/Replace(one byte, one byte) calls")
			return
		}
		var bad []string
		for ch := 0; ch < 256; ch++ {
			want := byte(ch)
			if ch >= 'a' && ch <= 'z' {
				want = byte(ch - 'a' + 'A')
			}
			if want == 'U' {
				want = 'T'
			}
			if m[ch] != want {
				bad = append(bad, fmt.Sprintf("%q is searched as %q (want %q)", rune(ch), rune(m[ch]), rune(want)))
			}
		}
		if len(bad) == 0 {
			L.OK(rule, r.label, "searched text", c.P.Pos(call.Pos()), "the composed byte map is upper-case with U->T on all 256 bytes")
		} else {
			if len(bad) > 4 {
				bad = append(bad[:4], fmt.Sprintf("… (%d bytes differ)", len(bad)))
			}
			L.Bad(rule, r.label, "searched text", c.P.Pos(call.Pos()), "the row is not normalised to upper-case DNA before the ORF search: "+strings.Join(bad, ", "))
		}
	})
	if n == 0 {
		L.Unknown(rule, r.label, "searched text", c.P.Pos(fn.Pos()), "no regexp Find* call found")
	}
	L.Floor(rule, 1, "one search")
}
