package rules

import (
	"fmt"
	"go/token"
	"strings"

	"golang.org/x/tools/go/ssa"
)

// Normalisers. Where a function divides the elements of a table by a sum that a loop accumulated
// from the elements of that same table (frequencies, weights), the sum must be taken over the
// values that are divided: an element that the accumulating iteration still changes after it has
// been added (a pseudo-count added after `sum += v`) makes the result sum to something else than
// one — every quantity derived from the frequencies is then off by that factor.
//
// Rule: in a loop, `T += N[k]` for the loop's own index k, with T later used as the divisor of an
// element of N, is not followed in the same iteration by a store into N.
func sameTable(a, b ssa.Value) bool {
	if a == b {
		return true
	}
	if oa, ob := sliceOrigin(a), sliceOrigin(b); oa != nil && oa == ob {
		return true
	}
	ua, ok1 := a.(*ssa.UnOp)
	ub, ok2 := b.(*ssa.UnOp)
	if ok1 && ok2 && ua.Op == token.MUL && ub.Op == token.MUL && ua.X == ub.X {
		switch ua.X.(type) {
		case *ssa.Alloc, *ssa.FreeVar:
			return true
		}
	}
	return false
}

func elemLoad(v ssa.Value) (*ssa.UnOp, *ssa.IndexAddr) {
	for {
		if cv, ok := v.(*ssa.Convert); ok {
			v = cv.X
			continue
		}
		break
	}
	u, ok := v.(*ssa.UnOp)
	if !ok || u.Op != token.MUL {
		return nil, nil
	}
	ia, ok := u.X.(*ssa.IndexAddr)
	if !ok {
		return nil, nil
	}
	return u, ia
}

type normSite struct {
	add  *ssa.BinOp
	late []ssa.Instruction
}

// normaliserSites: the accumulations `T += N[k]` of fn whose T later divides elements of N, each
// with the stores into N that can follow the addition within the same iteration.
func normaliserSites(fn *ssa.Function) []normSite {
	var out []normSite
	loops := naturalLoops(fn)
	if len(loops) == 0 {
		return nil
	}
	type div struct {
		table ssa.Value
		t     ssa.Value
	}
	var divs []div
	allInstrs(fn, func(in ssa.Instruction) {
		bo, ok := in.(*ssa.BinOp)
		if !ok || bo.Op != token.QUO {
			return
		}
		if _, ia := elemLoad(bo.X); ia != nil {
			divs = append(divs, div{ia.X, bo.Y})
		}
	})
	if len(divs) == 0 {
		return nil
	}
	for _, lp := range loops {
		for _, b := range blocksInOrder(lp) {
			for _, in := range b.Instrs {
				add, ok := in.(*ssa.BinOp)
				if !ok || add.Op != token.ADD {
					continue
				}
				var acc, el ssa.Value
				for _, pr := range [][2]ssa.Value{{add.X, add.Y}, {add.Y, add.X}} {
					if u, ia := elemLoad(pr[1]); u != nil && ownIndexOf(lp, stripConv(ia.Index)) {
						acc, el = pr[0], pr[1]
					}
				}
				if acc == nil {
					continue
				}
				u, ia := elemLoad(el)
				var isT func(t ssa.Value) bool
				if ld, ok := acc.(*ssa.UnOp); ok && ld.Op == token.MUL {
					cell := ld.X
					stored := false
					for _, r := range *add.Referrers() {
						if st, ok := r.(*ssa.Store); ok && st.Addr == cell && st.Val == ssa.Value(add) {
							stored = true
						}
					}
					if !stored {
						continue
					}
					isT = func(t ssa.Value) bool {
						l2, ok := t.(*ssa.UnOp)
						return ok && l2.Op == token.MUL && l2.X == cell
					}
				} else if p, ok := acc.(*ssa.Phi); ok && p.Block() == lp.Head {
					fed := false
					for _, e := range p.Edges {
						if e == ssa.Value(add) {
							fed = true
						}
					}
					if !fed {
						continue
					}
					isT = func(t ssa.Value) bool { return t == ssa.Value(p) }
				} else {
					continue
				}
				used := false
				for _, d := range divs {
					if isT(d.t) && sameTable(d.table, ia.X) {
						used = true
					}
				}
				if !used {
					continue
				}
				var late []ssa.Instruction
				isTableStore := func(x ssa.Instruction) bool {
					st, ok := x.(*ssa.Store)
					if !ok {
						return false
					}
					ia2, ok := st.Addr.(*ssa.IndexAddr)
					return ok && sameTable(ia2.X, ia.X)
				}
				lb := u.Block()
				after := false
				for _, x := range lb.Instrs {
					if after && isTableStore(x) {
						late = append(late, x)
					}
					if x == ssa.Instruction(u) {
						after = true
					}
				}
				seen := map[*ssa.BasicBlock]bool{}
				var work []*ssa.BasicBlock
				for _, s := range lb.Succs {
					if s != lp.Head && lp.Blocks[s] {
						work = append(work, s)
					}
				}
				for len(work) > 0 {
					x := work[len(work)-1]
					work = work[:len(work)-1]
					if seen[x] {
						continue
					}
					seen[x] = true
					for _, y := range x.Instrs {
						if isTableStore(y) {
							late = append(late, y)
						}
					}
					for _, s := range x.Succs {
						if s != lp.Head && lp.Blocks[s] {
							work = append(work, s)
						}
					}
				}
				out = append(out, normSite{add, late})
			}
		}
	}
	return out
}

func (c *Ctx) checkNormaliserSums(rule string, rels ...string) {
	L := c.L
	L.Rule(rule, "where a loop accumulates T += N[k] over its own index and T is later the divisor of elements of N, no store into N follows the addition in the same iteration: the normaliser is the sum of the values that are divided")
	n := 0
	for _, fn := range c.P.SrcFuncs(rels...) {
		for _, s := range normaliserSites(fn) {
			n++
			name := c.P.FuncName(fn)
			if len(s.late) == 0 {
				L.OK(rule, name, "normaliser accumulated over final values", c.P.Pos(s.add.Pos()), "no store into the table follows the addition within the iteration")
				continue
			}
			var late []string
			for _, x := range s.late {
				late = append(late, c.P.Pos(x.Pos()))
			}
			L.Bad(rule, name, "normaliser accumulated over final values", c.P.Pos(s.add.Pos()), "the element is added to the normaliser before the iteration changes it (store at "+strings.Join(dedupe(late), ", ")+"): the divided values no longer sum to the divisor")
		}
	}
	L.Trivial(rule, strings.Join(rels, ","), "functions scanned", "-", fmt.Sprintf("%d normaliser accumulation(s) found", n))
	if cp := c.Controls(); cp != nil {
		fired, silent := false, false
		for _, fn := range cp.SrcFuncs() {
			for _, s := range normaliserSites(fn) {
				if fn.Name() == "NormaliserBeforePseudoCount" && len(s.late) > 0 {
					fired = true
				}
				if fn.Name() == "NormaliserAfterPseudoCount" && len(s.late) == 0 {
					silent = true
				}
			}
		}
		L.ControlMustFire(rule, fired && silent, "controls/normsum.go: the sum taken before the pseudo-count is added must be flagged, the sum of the final values must not")
	}
}
