package rules

import (
	"fmt"
	"go/token"
	"strings"

	"golang.org/x/tools/go/ssa"
)

// checkCellNonNegative: local alignment never carries a negative score from one cell to the
// next. In the main (doubly nested) fill loop of fillMatrix_SW every store into the current cell
// matrix[i][j] other than the clamp itself is followed, on every path to the next iteration, by
// the clamp test `matrix[i][j] < 0` whose true side stores 0. A clamp that runs before one of
// the gap updates leaves a negative value in the cell; the next diagonal then starts below zero
// and the reported score is lower than the score of the returned alignment.
func (c *Ctx) checkCellNonNegative(rule string) {
	L := c.L
	L.Rule(rule, "in the main fill loop of fillMatrix_SW every store into the current cell matrix[i][j] is followed on every path to the next iteration by the test matrix[i][j] < 0 that resets the cell to 0 (or stores a maximum with 0): no cell keeps a negative score")
	r := c.fn("align", "*pwaligner", "fillMatrix_SW")
	if !r.ok() {
		return
	}
	fn := r.F
	isCellAddr := func(v ssa.Value) bool {
		ia, ok := v.(*ssa.IndexAddr)
		if !ok {
			return false
		}
		row, ok := ia.X.(*ssa.UnOp)
		if !ok || row.Op != token.MUL {
			return false
		}
		ia2, ok := row.X.(*ssa.IndexAddr)
		if !ok {
			return false
		}
		_, f, base := loadedField(ia2.X)
		return base != nil && f == "matrix"
	}
	loops := naturalLoops(fn)
	depth := func(lp *loop) int {
		d := 0
		for _, o := range loops {
			if o != lp && o.Blocks[lp.Head] {
				d++
			}
		}
		return d
	}
	n := 0
	for _, lp := range loops {
		if depth(lp) != 1 {
			continue
		}
		var stores []*ssa.Store
		for _, b := range blocksInOrder(lp) {
			for _, in := range b.Instrs {
				if st, ok := in.(*ssa.Store); ok && isCellAddr(st.Addr) {
					stores = append(stores, st)
				}
			}
		}
		if len(stores) < 2 {
			continue
		}
		// clamp tests: If on (load cell) < 0 whose true successor stores the constant 0 into a cell
		clampTest := map[*ssa.BasicBlock]bool{}
		clampStore := map[*ssa.Store]bool{}
		for _, b := range blocksInOrder(lp) {
			if len(b.Instrs) == 0 {
				continue
			}
			ifi, ok := b.Instrs[len(b.Instrs)-1].(*ssa.If)
			if !ok {
				continue
			}
			bo, ok := ifi.Cond.(*ssa.BinOp)
			if !ok {
				continue
			}
			var cell ssa.Value
			var other ssa.Value
			negSide := -1 // successor index taken when the cell is negative
			switch bo.Op {
			case token.LSS:
				cell, other, negSide = bo.X, bo.Y, 0
			case token.GTR:
				cell, other, negSide = bo.Y, bo.X, 0
			case token.GEQ:
				cell, other, negSide = bo.X, bo.Y, 1
			case token.LEQ:
				cell, other, negSide = bo.Y, bo.X, 1
			default:
				continue
			}
			u, ok := cell.(*ssa.UnOp)
			if !ok || u.Op != token.MUL || !isCellAddr(u.X) {
				continue
			}
			if k, ok := other.(*ssa.Const); !ok || ratOf(k.Value) == nil || ratOf(k.Value).Sign() != 0 {
				continue
			}
			tgt := b.Succs[negSide]
			for _, in := range tgt.Instrs {
				if st, ok := in.(*ssa.Store); ok && isCellAddr(st.Addr) {
					if k, ok := st.Val.(*ssa.Const); ok && ratOf(k.Value) != nil && ratOf(k.Value).Sign() == 0 {
						clampTest[b] = true
						clampStore[st] = true
					}
				}
			}
		}
		var bad []string
		for _, st := range stores {
			if clampStore[st] {
				continue
			}
			if x, y, ok := maxExpr(st.Val); ok {
				hasZero := false
				for _, t := range []ssa.Value{x, y} {
					if k, ok := t.(*ssa.Const); ok && ratOf(k.Value) != nil && ratOf(k.Value).Sign() == 0 {
						hasZero = true
					}
				}
				if hasZero {
					continue
				}
			}
			if k, ok := st.Val.(*ssa.Const); ok && ratOf(k.Value) != nil && ratOf(k.Value).Sign() >= 0 {
				continue
			}
			// the stored value itself was tested: `if v < 0 { cell = 0 } else { cell = v }`
			if valueKnownNonNegative(st.Val, st.Block()) {
				continue
			}
			// every path from the store to the loop header passes a clamp test
			sb := st.Block()
			if clampTest[sb] {
				continue // the store precedes the test that ends its own block
			}
			seen := map[*ssa.BasicBlock]bool{}
			work := append([]*ssa.BasicBlock{}, sb.Succs...)
			escaped := false
			for len(work) > 0 && !escaped {
				b := work[len(work)-1]
				work = work[:len(work)-1]
				if seen[b] {
					continue
				}
				seen[b] = true
				if b == lp.Head || !lp.Blocks[b] {
					escaped = true
					break
				}
				if clampTest[b] {
					continue
				}
				work = append(work, b.Succs...)
			}
			if escaped {
				bad = append(bad, c.P.Pos(st.Pos()))
			}
		}
		n++
		if len(bad) == 0 {
			L.OK(rule, r.label, "current cell clamped after its last update", c.P.Pos(lp.Head.Instrs[0].Pos()), fmt.Sprintf("%d store(s) into the cell, %d clamp test(s); every store is followed by a clamp test before the next iteration", len(stores), len(clampTest)))
		} else {
			L.Bad(rule, r.label, "current cell clamped after its last update", c.P.Pos(lp.Head.Instrs[0].Pos()), "a value stored into the current cell can stay negative: the next iteration is reachable without the test `cell < 0` from the store(s) at "+strings.Join(bad, ", "))
		}
	}
	if n == 0 {
		L.Unknown(rule, r.label, "current cell clamped after its last update", c.P.Pos(fn.Pos()), "no nested loop with stores into matrix[i][j] found")
	}
	L.Floor(rule, 1, "one fill loop")
}


// valueKnownNonNegative: block b is reached only through the side of a test `v < 0` / `v >= 0`
// (or `v > 0`) of this very value on which v is not negative.
func valueKnownNonNegative(v ssa.Value, b *ssa.BasicBlock) bool {
	for d := b; d != nil; d = d.Idom() {
		id := d.Idom()
		if id == nil || len(id.Instrs) == 0 || len(d.Preds) != 1 {
			continue
		}
		ifi, ok := id.Instrs[len(id.Instrs)-1].(*ssa.If)
		if !ok {
			continue
		}
		bo, ok := ifi.Cond.(*ssa.BinOp)
		if !ok {
			continue
		}
		isZero := func(x ssa.Value) bool {
			k, ok := x.(*ssa.Const)
			return ok && ratOf(k.Value) != nil && ratOf(k.Value).Sign() == 0
		}
		onTrue := id.Succs[0] == d
		switch {
		case bo.X == v && isZero(bo.Y):
			// v < 0 false side, v >= 0 / v > 0 true side
			if (bo.Op == token.LSS && !onTrue) || ((bo.Op == token.GEQ || bo.Op == token.GTR) && onTrue) {
				return true
			}
		case bo.Y == v && isZero(bo.X):
			// 0 > v false side, 0 <= v / 0 < v true side
			if (bo.Op == token.GTR && !onTrue) || ((bo.Op == token.LEQ || bo.Op == token.LSS) && onTrue) {
				return true
			}
		}
	}
	return false
}
