package rules

import (
	"fmt"
	"go/ast"
	"go/token"
	"go/types"
	"sort"
	"strings"

	"golang.org/x/tools/go/packages"
	"golang.org/x/tools/go/ssa"

	"goalignsa/core"
)

// E6 — goroutine protocol rules on SSA.

// resolveCell maps an address value used inside a (nested) closure to the
// Alloc of the enclosing function it is bound to (through FreeVars), or to a
// Global. Returns the root cell and true.
func resolveCell(v ssa.Value, bind map[*ssa.FreeVar]ssa.Value) ssa.Value {
	for {
		switch x := v.(type) {
		case *ssa.FreeVar:
			b, ok := bind[x]
			if !ok {
				return x
			}
			v = b
		case *ssa.Alloc, *ssa.Global:
			return x
		default:
			return v
		}
	}
}

// closureTree collects, for a function F, all closures created (transitively)
// inside it with the FreeVar → binding map.
type closureInfo struct {
	fn   *ssa.Function
	mc   *ssa.MakeClosure
	via  *ssa.Go // non-nil when launched by a go statement
	loop bool    // the go statement sits in a loop (N instances)
}

func closuresOf(F *ssa.Function) ([]closureInfo, map[*ssa.FreeVar]ssa.Value) {
	bind := map[*ssa.FreeVar]ssa.Value{}
	var out []closureInfo
	var rec func(f *ssa.Function)
	rec = func(f *ssa.Function) {
		loops := naturalLoops(f)
		inLoop := func(b *ssa.BasicBlock) bool {
			for _, l := range loops {
				if l.Blocks[b] {
					return true
				}
			}
			return false
		}
		allInstrs(f, func(in ssa.Instruction) {
			mc, ok := in.(*ssa.MakeClosure)
			if !ok {
				return
			}
			cf := mc.Fn.(*ssa.Function)
			for i, b := range mc.Bindings {
				bind[cf.FreeVars[i]] = b
			}
			ci := closureInfo{fn: cf, mc: mc}
			if refs := mc.Referrers(); refs != nil {
				for _, r := range *refs {
					if g, ok := r.(*ssa.Go); ok && g.Call.Value == ssa.Value(mc) {
						ci.via = g
						ci.loop = inLoop(g.Block())
					}
				}
			}
			out = append(out, ci)
			rec(cf)
		})
	}
	rec(F)
	return out, bind
}

func isSyncMethod(cc *ssa.CallCommon, typ, name string) bool {
	return isMethod(cc, "sync", typ, name)
}

// mustBeforeReturn: on every path from entry to a Return, an instruction
// satisfying pred has been executed (a Defer of such a call counts from the
// point where the defer statement executes).
func mustBeforeReturn(fn *ssa.Function, pred func(ssa.Instruction) bool) (bool, *ssa.Return) {
	n := len(fn.Blocks)
	in := make([]bool, n)
	out := make([]bool, n)
	for i := range out {
		out[i] = true
		in[i] = true
	}
	gen := make([]bool, n)
	for _, b := range fn.Blocks {
		for _, ins := range b.Instrs {
			if pred(ins) {
				gen[b.Index] = true
			}
		}
	}
	changed := true
	for changed {
		changed = false
		for _, b := range fn.Blocks {
			v := true
			if b.Index == 0 {
				v = false
			} else {
				for _, p := range b.Preds {
					v = v && out[p.Index]
				}
				if len(b.Preds) == 0 {
					v = true // unreachable
				}
			}
			o := v || gen[b.Index]
			if v != in[b.Index] || o != out[b.Index] {
				in[b.Index], out[b.Index] = v, o
				changed = true
			}
		}
	}
	for _, b := range fn.Blocks {
		if len(b.Instrs) == 0 {
			continue
		}
		if r, ok := b.Instrs[len(b.Instrs)-1].(*ssa.Return); ok {
			// pred must hold before the return: position inside the block
			ok2 := in[b.Index]
			for _, ins := range b.Instrs {
				if pred(ins) {
					ok2 = true
				}
			}
			if !ok2 {
				return false, r
			}
		}
	}
	return true, nil
}

// callOn: instruction (Call or Defer) invoking sync method typ.name on cell.
func callOn(in ssa.Instruction, typ, name string, cell ssa.Value, bind map[*ssa.FreeVar]ssa.Value) bool {
	cc := callOf(in)
	if cc == nil || !isSyncMethod(cc, typ, name) || len(cc.Args) == 0 {
		return false
	}
	if _, isGo := in.(*ssa.Go); isGo {
		return false
	}
	return resolveCell(cc.Args[0], bind) == cell
}

func closeOf(in ssa.Instruction, ch ssa.Value, bind map[*ssa.FreeVar]ssa.Value, chanVals map[ssa.Value]bool) bool {
	cc := callOf(in)
	if cc == nil || builtinName(cc) != "close" {
		return false
	}
	if _, isGo := in.(*ssa.Go); isGo {
		return false
	}
	return chanVals[cc.Args[0]]
}

// chanAliases: values that denote the channel created by mk, inside F and its
// closures: the MakeChan itself, loads of cells it is stored to (resolved
// through FreeVars), and ChangeType conversions.
func chanAliases(F *ssa.Function, mk *ssa.MakeChan, clos []closureInfo, bind map[*ssa.FreeVar]ssa.Value) map[ssa.Value]bool {
	vals := map[ssa.Value]bool{mk: true}
	cells := map[ssa.Value]bool{}
	fns := []*ssa.Function{F}
	for _, c := range clos {
		fns = append(fns, c.fn)
	}
	changed := true
	for changed {
		changed = false
		for _, f := range fns {
			allInstrs(f, func(in ssa.Instruction) {
				switch x := in.(type) {
				case *ssa.Store:
					if vals[x.Val] {
						c := resolveCell(x.Addr, bind)
						if !cells[c] {
							cells[c] = true
							changed = true
						}
					}
				case *ssa.UnOp:
					if x.Op == token.MUL && cells[resolveCell(x.X, bind)] && !vals[x] {
						vals[x] = true
						changed = true
					}
				case *ssa.ChangeType:
					if vals[x.X] && !vals[x] {
						vals[x] = true
						changed = true
					}
				case *ssa.Phi:
					for _, e := range x.Edges {
						if vals[e] && !vals[x] {
							vals[x] = true
							changed = true
						}
					}
				}
			})
		}
		// direct bindings of the channel value (captured by value is impossible
		// in Go; captured variables are cells) — FreeVars bound to a value
		for fv, b := range bind {
			if vals[b] && !vals[fv] {
				vals[fv] = true
				changed = true
			}
		}
	}
	return vals
}

// ---------------------------------------------------------------------------
// (a) WaitGroup pairing, (b) channel closing

func (c *Ctx) checkJoinProtocol(r *fnRef, rulePrefix string) {
	L := c.L
	if !r.ok() {
		return
	}
	F := r.F
	clos, bind := closuresOf(F)
	ruleWG := rulePrefix + "wg-done"
	ruleCl := rulePrefix + "chan-close"
	L.Rule(ruleWG, "every goroutine launched after wg.Add executes wg.Done on all paths to its exit (deferred, or reached before every return); otherwise wg.Wait blocks forever on the path that skips it")
	L.Rule(ruleCl, "every channel created by the function is closed by exactly one function, on all paths to that function's exit (deferred or reached before every return), so that consumers ranging over it terminate")

	// WaitGroups: Allocs of type sync.WaitGroup on which Add is called in F
	wgs := map[ssa.Value]bool{}
	for _, f := range append([]*ssa.Function{F}, closFns(clos)...) {
		allInstrs(f, func(in ssa.Instruction) {
			cc := callOf(in)
			if cc != nil && isSyncMethod(cc, "WaitGroup", "Add") && len(cc.Args) > 0 {
				wgs[resolveCell(cc.Args[0], bind)] = true
			}
		})
	}
	for wg := range wgs {
		wgName := wg.Name()
		if a, ok := wg.(*ssa.Alloc); ok {
			wgName = a.Comment
		}
		// goroutines that reference this wg and call Done
		nWorkers := 0
		for _, ci := range clos {
			if ci.via == nil {
				continue
			}
			refsWG := false
			callsDone := false
			for _, f := range withAnons(ci.fn) {
				allInstrs(f, func(in ssa.Instruction) {
					if callOn(in, "WaitGroup", "Done", wg, bind) {
						callsDone = true
						refsWG = true
					}
					if callOn(in, "WaitGroup", "Wait", wg, bind) {
						refsWG = true
					}
				})
			}
			if !refsWG || !callsDone {
				continue
			}
			nWorkers++
			ok, ret := mustBeforeReturn(ci.fn, func(in ssa.Instruction) bool { return callOn(in, "WaitGroup", "Done", wg, bind) })
			name := "go " + c.P.FuncName(ci.fn) + " / " + wgName
			if ok {
				L.OK(ruleWG, r.label, name, c.P.Pos(ci.via.Pos()), "Done (or its defer) is executed before every return of the goroutine (forward must-analysis over its CFG)")
			} else {
				L.Bad(ruleWG, r.label, name, c.P.Pos(ret.Pos()), fmt.Sprintf("the goroutine can return at %s without calling %s.Done(): the matching Wait never returns", c.P.Pos(ret.Pos()), wgName))
			}
		}
		if nWorkers == 0 {
			L.Unknown(ruleWG, r.label, "workers of "+wgName, c.P.Pos(F.Pos()), "Add is called but no goroutine calling Done was found")
		}
		// Wait exists somewhere
		hasWait := false
		for _, f := range append([]*ssa.Function{F}, closFns(clos)...) {
			allInstrs(f, func(in ssa.Instruction) {
				if callOn(in, "WaitGroup", "Wait", wg, bind) {
					hasWait = true
				}
			})
		}
		L.Check(hasWait, ruleWG, r.label, "Wait on "+wgName, c.P.Pos(F.Pos()), "a Wait on the same WaitGroup exists", "no Wait on the WaitGroup: results may be read before workers finish")
	}

	// channels
	var chans []*ssa.MakeChan
	for _, f := range append([]*ssa.Function{F}, closFns(clos)...) {
		allInstrs(f, func(in ssa.Instruction) {
			if mk, ok := in.(*ssa.MakeChan); ok {
				chans = append(chans, mk)
			}
		})
	}
	sort.Slice(chans, func(i, j int) bool { return chans[i].Pos() < chans[j].Pos() })
	for i, mk := range chans {
		vals := chanAliases(F, mk, clos, bind)
		name := fmt.Sprintf("chan #%d %s", i+1, mk.Type().String())
		var closers []*ssa.Function
		for _, f := range append([]*ssa.Function{F}, closFns(clos)...) {
			has := false
			allInstrs(f, func(in ssa.Instruction) {
				if closeOf(in, mk, bind, vals) {
					has = true
				}
			})
			if has {
				closers = append(closers, f)
			}
		}
		switch len(closers) {
		case 0:
			L.Bad(ruleCl, r.label, name, c.P.Pos(mk.Pos()), "the channel is never closed: a consumer ranging over it blocks forever")
		case 1:
			ok, ret := mustBeforeReturn(closers[0], func(in ssa.Instruction) bool { return closeOf(in, mk, bind, vals) })
			if ok {
				L.OK(ruleCl, r.label, name, c.P.Pos(mk.Pos()), "closed in "+c.P.FuncName(closers[0])+" before every return (deferred or on all paths)")
			} else {
				L.Bad(ruleCl, r.label, name, c.P.Pos(ret.Pos()), "function "+c.P.FuncName(closers[0])+" can return without closing the channel")
			}
		default:
			var ns []string
			for _, f := range closers {
				ns = append(ns, c.P.FuncName(f))
			}
			L.Bad(ruleCl, r.label, name, c.P.Pos(mk.Pos()), "channel closed by several functions (double close panics): "+strings.Join(ns, ", "))
		}
	}
}

func closFns(cs []closureInfo) []*ssa.Function {
	var out []*ssa.Function
	for _, c := range cs {
		out = append(out, c.fn)
	}
	return out
}

// threadFuncs: the go-closure, the literals nested in it, and the helper
// closures of the enclosing function that it calls through captured variables
// (e.g. a `setErr := func(e error){…}` helper), transitively.
func threadFuncs(root *ssa.Function, clos []closureInfo, bind map[*ssa.FreeVar]ssa.Value) []*ssa.Function {
	seen := map[*ssa.Function]bool{}
	var out []*ssa.Function
	var add func(f *ssa.Function)
	add = func(f *ssa.Function) {
		if f == nil || seen[f] {
			return
		}
		seen[f] = true
		out = append(out, f)
		for _, a := range f.AnonFuncs {
			add(a)
		}
		allInstrs(f, func(in ssa.Instruction) {
			cc := callOf(in)
			if cc == nil || cc.IsInvoke() {
				return
			}
			if g := closureTarget(cc.Value, f, bind); g != nil {
				add(g)
			}
		})
	}
	add(root)
	return out
}

// closureTarget resolves a called value to the function literal it denotes
// when it is a captured variable (cell) assigned exactly one MakeClosure.
func closureTarget(v ssa.Value, in *ssa.Function, bind map[*ssa.FreeVar]ssa.Value) *ssa.Function {
	switch x := v.(type) {
	case *ssa.MakeClosure:
		return x.Fn.(*ssa.Function)
	case *ssa.UnOp:
		if x.Op != token.MUL {
			return nil
		}
		cell := resolveCell(x.X, bind)
		a, ok := cell.(*ssa.Alloc)
		if !ok {
			return nil
		}
		var tgt *ssa.Function
		n := 0
		if refs := a.Referrers(); refs != nil {
			for _, r := range *refs {
				if st, ok := r.(*ssa.Store); ok && st.Addr == ssa.Value(a) {
					n++
					if mc, ok := st.Val.(*ssa.MakeClosure); ok {
						tgt = mc.Fn.(*ssa.Function)
					}
				}
			}
		}
		if n == 1 {
			return tgt
		}
	case *ssa.FreeVar:
		if b, ok := bind[x]; ok {
			return closureTarget(b, in, bind)
		}
	}
	return nil
}

// ---------------------------------------------------------------------------
// (c) lockset-lite on captured scalar cells

type access struct {
	thread string
	multi  bool // thread has several instances
	write  bool
	locked map[ssa.Value]bool
	in     ssa.Instruction
	fn     *ssa.Function
}

// heldLocks: must-hold mutex set before each instruction of fn.
func heldLocks(fn *ssa.Function, bind map[*ssa.FreeVar]ssa.Value) map[ssa.Instruction]map[ssa.Value]bool {
	type set = map[ssa.Value]bool
	clone := func(s set) set {
		n := set{}
		for k := range s {
			n[k] = true
		}
		return n
	}
	inter := func(a, b set) set {
		n := set{}
		for k := range a {
			if b[k] {
				n[k] = true
			}
		}
		return n
	}
	n := len(fn.Blocks)
	outS := make([]set, n)
	visited := make([]bool, n)
	res := map[ssa.Instruction]map[ssa.Value]bool{}
	changed := true
	for iter := 0; changed && iter < 50; iter++ {
		changed = false
		for _, b := range fn.Blocks {
			var cur set
			first := true
			for _, p := range b.Preds {
				if !visited[p.Index] {
					continue
				}
				if first {
					cur = clone(outS[p.Index])
					first = false
				} else {
					cur = inter(cur, outS[p.Index])
				}
			}
			if cur == nil {
				cur = set{}
			}
			for _, in := range b.Instrs {
				res[in] = clone(cur)
				if cc := callOf(in); cc != nil && len(cc.Args) > 0 {
					if _, isDefer := in.(*ssa.Defer); isDefer {
						continue
					}
					if isSyncMethod(cc, "Mutex", "Lock") || isSyncMethod(cc, "RWMutex", "Lock") {
						cur[resolveCell(cc.Args[0], bind)] = true
					}
					if isSyncMethod(cc, "Mutex", "Unlock") || isSyncMethod(cc, "RWMutex", "Unlock") {
						delete(cur, resolveCell(cc.Args[0], bind))
					}
				}
			}
			if !visited[b.Index] || len(cur) != len(outS[b.Index]) {
				changed = true
			} else {
				for k := range cur {
					if !outS[b.Index][k] {
						changed = true
					}
				}
			}
			visited[b.Index] = true
			outS[b.Index] = cur
		}
	}
	return res
}

func (c *Ctx) checkLockset(r *fnRef, rule string) {
	L := c.L
	if !r.ok() {
		return
	}
	L.Rule(rule, "for every scalar variable of the function captured by a goroutine closure: if two threads (each go closure, N instances when launched in a loop, and the parent between the first go statement and the join) access it and one writes, every such access holds the same mutex (must-hold dataflow on the CFG); parent accesses dominated by wg.Wait are after the join. Element stores indexed by work items are assumed partitioned and are not decided")
	F := r.F
	clos, bind := closuresOf(F)
	// cells: Allocs of F captured by some go-closure (directly or nested)
	goClos := []closureInfo{}
	for _, ci := range clos {
		if ci.via != nil {
			goClos = append(goClos, ci)
		}
	}
	cells := map[*ssa.Alloc]bool{}
	for fv, b := range bind {
		_ = fv
		if a, ok := resolveCell(b, bind).(*ssa.Alloc); ok && a.Parent() == F {
			cells[a] = true
		}
	}
	// Wait calls in F
	var waits []ssa.Instruction
	allInstrs(F, func(in ssa.Instruction) {
		if cc := callOf(in); cc != nil && isSyncMethod(cc, "WaitGroup", "Wait") {
			if _, isGo := in.(*ssa.Go); !isGo {
				waits = append(waits, in)
			}
		}
	})
	var cellList []*ssa.Alloc
	for a := range cells {
		cellList = append(cellList, a)
	}
	sort.Slice(cellList, func(i, j int) bool { return cellList[i].Pos() < cellList[j].Pos() })
	locksByFn := map[*ssa.Function]map[ssa.Instruction]map[ssa.Value]bool{}
	lk := func(f *ssa.Function) map[ssa.Instruction]map[ssa.Value]bool {
		if m, ok := locksByFn[f]; ok {
			return m
		}
		m := heldLocks(f, bind)
		locksByFn[f] = m
		return m
	}
	for _, cell := range cellList {
		t := cell.Type().(*types.Pointer).Elem()
		switch t.Underlying().(type) {
		case *types.Struct:
			if n := namedOf(t); n != nil && n.Obj().Pkg() != nil && n.Obj().Pkg().Path() == "sync" {
				continue // the synchronisation objects themselves
			}
		}
		var acc []access
		// accesses in go closures (and closures nested in them)
		for _, ci := range goClos {
			for _, f := range threadFuncs(ci.fn, clos, bind) {
				locks := lk(f)
				allInstrs(f, func(in ssa.Instruction) {
					switch x := in.(type) {
					case *ssa.Store:
						if resolveCell(x.Addr, bind) == ssa.Value(cell) {
							acc = append(acc, access{c.P.FuncName(ci.fn), ci.loop, true, locks[in], in, f})
						}
					case *ssa.UnOp:
						if x.Op == token.MUL && resolveCell(x.X, bind) == ssa.Value(cell) {
							acc = append(acc, access{c.P.FuncName(ci.fn), ci.loop, false, locks[in], in, f})
						}
					}
				})
			}
		}
		if len(acc) == 0 {
			continue
		}
		// parent accesses after the spawn of a goroutine that touches the cell and before the join
		{
			accessing := map[*ssa.Function]bool{}
			for _, a := range acc {
				for _, ci := range goClos {
					if c.P.FuncName(ci.fn) == a.thread {
						accessing[ci.fn] = true
					}
				}
			}
			locks := lk(F)
			allInstrs(F, func(in ssa.Instruction) {
				var isAcc, write bool
				switch x := in.(type) {
				case *ssa.Store:
					if x.Addr == ssa.Value(cell) {
						isAcc, write = true, true
					}
				case *ssa.UnOp:
					if x.Op == token.MUL && x.X == ssa.Value(cell) {
						isAcc = true
					}
				}
				if !isAcc {
					return
				}
				after := false
				for _, ci := range goClos {
					if !accessing[ci.fn] {
						continue
					}
					g := ci.via
					if reachableFrom(g.Block())[in.Block()] || (in.Block() == g.Block() && indexIn(in.Block(), in) > indexIn(in.Block(), g)) {
						after = true
					}
				}
				if !after {
					return
				}
				for _, w := range waits {
					if instrDominates(w, in) {
						return // after the join
					}
				}
				acc = append(acc, access{"parent " + c.P.FuncName(F), false, write, locks[in], in, F})
			})
		}
		// decide
		threads := map[string]bool{}
		multi := false
		anyWrite := false
		for _, a := range acc {
			threads[a.thread] = true
			if a.multi {
				multi = true
			}
			if a.write {
				anyWrite = true
			}
		}
		name := "shared variable " + cell.Comment
		pos := c.P.Pos(cell.Pos())
		nThreads := len(threads)
		if multi {
			nThreads++
		}
		if nThreads < 2 || !anyWrite {
			L.OK(rule, r.label, name, pos, fmt.Sprintf("%d accesses from a single thread or read-only (threads: %s)", len(acc), keys(threads)))
			continue
		}
		// common lock
		var common map[ssa.Value]bool
		for i, a := range acc {
			if i == 0 {
				common = map[ssa.Value]bool{}
				for k := range a.locked {
					common[k] = true
				}
				continue
			}
			for k := range common {
				if !a.locked[k] {
					delete(common, k)
				}
			}
		}
		if len(common) > 0 {
			L.OK(rule, r.label, name, pos, fmt.Sprintf("%d accesses from %d threads, all inside Lock/Unlock of the same mutex", len(acc), nThreads))
			continue
		}
		if why, ok := c.locksetErrOnly[cell.Comment]; ok {
			// exception: the variable is only written on paths on which an error has
			// been produced (the property at hand is stated for error-free runs)
			allErr := true
			for _, a := range acc {
				if !a.write {
					continue
				}
				if !dominatedByNonNilTest(a.in.Block()) {
					allErr = false
				}
			}
			if allErr {
				L.OK(rule, r.label, name, pos, "written only under a `!= nil` error test ("+why+"); read-only in error-free runs")
				continue
			}
		}
		var unl []string
		for _, a := range acc {
			if len(a.locked) == 0 {
				k := "read"
				if a.write {
					k = "write"
				}
				unl = append(unl, fmt.Sprintf("%s in %s at %s", k, a.thread, c.P.Pos(a.in.Pos())))
			}
		}
		sort.Strings(unl)
		if len(unl) > 6 {
			unl = append(unl[:6], "…")
		}
		L.Bad(rule, r.label, name, pos, fmt.Sprintf("data race: accessed by %d threads with at least one write and no common mutex; unprotected: %s", nThreads, strings.Join(unl, "; ")))
	}
}

func keys(m map[string]bool) string {
	var ks []string
	for k := range m {
		ks = append(ks, k)
	}
	sort.Strings(ks)
	return strings.Join(ks, ", ")
}

// ---------------------------------------------------------------------------
// (d) one send per received item

// chanRangeLoops: loops whose header receives from a channel with comma-ok
// (`for x := range ch`).
func chanRangeLoops(fn *ssa.Function) []*loop {
	var out []*loop
	for _, lp := range naturalLoops(fn) {
		for _, in := range lp.Head.Instrs {
			if u, ok := in.(*ssa.UnOp); ok && u.Op == token.ARROW && u.CommaOk {
				out = append(out, lp)
				break
			}
		}
	}
	return out
}

func (c *Ctx) checkOneSendPerItem(r *fnRef, rule string, resultChan func(*ssa.MakeChan) bool) {
	L := c.L
	if !r.ok() {
		return
	}
	L.Rule(rule, "in each worker loop `for x := range in`, every path from the loop head to the back edge executes exactly one send on the result channel (paths that send zero or two results may only leave the function)")
	F := r.F
	clos, bind := closuresOf(F)
	var res *ssa.MakeChan
	allInstrs(F, func(in ssa.Instruction) {
		if mk, ok := in.(*ssa.MakeChan); ok && resultChan(mk) {
			res = mk
		}
	})
	if res == nil {
		L.Unknown(rule, r.label, "result channel", c.P.Pos(F.Pos()), "result channel not found")
		return
	}
	vals := chanAliases(F, res, clos, bind)
	n := 0
	for _, ci := range clos {
		if ci.via == nil {
			continue
		}
		sends := false
		allInstrs(ci.fn, func(in ssa.Instruction) {
			if s, ok := in.(*ssa.Send); ok && vals[s.Chan] {
				sends = true
			}
		})
		if !sends {
			continue
		}
		for _, lp := range chanRangeLoops(ci.fn) {
			n++
			// possible send counts at the end of each block, starting at the head with 0
			type cnt = map[int]bool // 0,1,2(=many)
			inS := map[*ssa.BasicBlock]cnt{lp.Head: {0: true}}
			work := []*ssa.BasicBlock{lp.Head}
			outS := map[*ssa.BasicBlock]cnt{}
			latch := cnt{}
			for len(work) > 0 {
				b := work[0]
				work = work[1:]
				cur := cnt{}
				for k := range inS[b] {
					cur[k] = true
				}
				for _, in := range b.Instrs {
					if s, ok := in.(*ssa.Send); ok && vals[s.Chan] {
						nc := cnt{}
						for k := range cur {
							if k+1 > 2 {
								nc[2] = true
							} else {
								nc[k+1] = true
							}
						}
						cur = nc
					}
				}
				outS[b] = cur
				for _, s := range b.Succs {
					if !lp.Blocks[s] {
						continue
					}
					if s == lp.Head {
						for k := range cur {
							latch[k] = true
						}
						continue
					}
					old := inS[s]
					grew := false
					if old == nil {
						old = cnt{}
						inS[s] = old
					}
					for k := range cur {
						if !old[k] {
							old[k] = true
							grew = true
						}
					}
					if grew {
						work = append(work, s)
					}
				}
			}
			name := "worker loop in " + c.P.FuncName(ci.fn)
			pos := c.P.Pos(lp.Head.Instrs[0].Pos())
			if len(latch) == 1 && latch[1] {
				L.OK(rule, r.label, name, pos, "every path from the receive to the back edge performs exactly one send on the result channel")
			} else {
				var ks []string
				for k := range latch {
					ks = append(ks, map[int]string{0: "0", 1: "1", 2: ">=2"}[k])
				}
				sort.Strings(ks)
				L.Bad(rule, r.label, name, pos, "an iteration can complete with {"+strings.Join(ks, ",")+"} sends on the result channel: a sequence is dropped or duplicated")
			}
		}
	}
	if n == 0 {
		L.Unknown(rule, r.label, "worker loop", c.P.Pos(F.Pos()), "no goroutine with a `for range channel` loop sending on the result channel was found")
	}
}

// ---------------------------------------------------------------------------
// C11 (d): fan-in order

// checkFanInOrder: a channel that receives from several concurrent senders
// delivers items in scheduling order; a consumer that writes output or builds
// an ordered container in arrival order makes the output depend on scheduling.
func (c *Ctx) checkFanInOrder(rule string) {
	L := c.L
	L.Rule(rule, "for every channel with several concurrent senders (send inside a goroutine launched in a loop, or in two goroutines): every consumer loop ranging over it (in the creating function or in callers receiving it as a result) must be order-insensitive (per-item keyed writes, exact commutative updates); output calls or ordered insertion in arrival order are violations")
	n := 0
	for _, F := range c.srcFuncs() {
		if F.Parent() != nil {
			continue
		}
		clos, bind := closuresOf(F)
		if len(clos) == 0 {
			continue
		}
		var chans []*ssa.MakeChan
		allInstrs(F, func(in ssa.Instruction) {
			if mk, ok := in.(*ssa.MakeChan); ok {
				chans = append(chans, mk)
			}
		})
		for _, mk := range chans {
			vals := chanAliases(F, mk, clos, bind)
			senders := 0
			for _, ci := range clos {
				if ci.via == nil {
					continue
				}
				s := false
				allInstrs(ci.fn, func(in ssa.Instruction) {
					if sd, ok := in.(*ssa.Send); ok && vals[sd.Chan] {
						s = true
					}
				})
				if s {
					senders++
					if ci.loop {
						senders++
					}
				}
			}
			if senders < 2 {
				continue
			}
			n++
			// consumers: does F return the channel?
			returned := false
			allInstrs(F, func(in ssa.Instruction) {
				if ret, ok := in.(*ssa.Return); ok {
					for _, rv := range ret.Results {
						if vals[rv] {
							returned = true
						}
					}
				}
			})
			fname := c.P.FuncName(F)
			if !returned {
				L.OK(rule, fname, "multi-sender channel "+mk.Type().String(), c.P.Pos(mk.Pos()), "channel does not leave the function; local consumers are covered by the lockset/accumulation rules")
				continue
			}
			// find consumer loops in callers: AST range statements over a value whose type is this channel type, assigned from a call of F (by method name)
			cons := c.consumerLoops(F)
			if len(cons) == 0 {
				L.OK(rule, fname, "multi-sender channel "+mk.Type().String(), c.P.Pos(mk.Pos()), "no consumer loop in the repository ranges over the returned channel")
			}
			for _, cl := range cons {
				v := classifyRangeBody(cl.pk.TypesInfo, cl.file, cl.rs)
				v.reasons = dedupe(v.reasons)
				name := "consumer of " + fname + " in " + cl.fnName
				pos := c.P.Pos(cl.rs.Pos())
				if v.class == "sensitive" {
					L.Bad(rule, fname, name, pos, "results of several concurrent workers are consumed in arrival order: "+strings.Join(v.reasons, "; "))
				} else if v.class == "undecided" {
					L.Unknown(rule, fname, name, pos, strings.Join(v.reasons, "; "))
				} else {
					L.OK(rule, fname, name, pos, "consumer loop is order-insensitive")
				}
			}
		}
	}
	L.Note("multi-sender channels found: %d", n)
	L.Floor(rule, 1, "align.(*phaser).Phase result channel")
}

type consumerLoop struct {
	pk     *packages.Package
	file   *ast.File
	fd     *ast.FuncDecl
	rs     *ast.RangeStmt
	fnName string
}

// consumerLoops: range statements over a channel variable that was assigned
// from a call to method/function F (matched by resolved callee object, incl.
// interface methods of the same name implemented by F's receiver).
func (c *Ctx) consumerLoops(F *ssa.Function) []consumerLoop {
	var out []consumerLoop
	fobj, _ := F.Object().(*types.Func)
	if fobj == nil {
		return nil
	}
	for _, pk := range c.P.Pkgs {
		info := pk.TypesInfo
		for _, f := range pk.Syntax {
			// channel objects assigned from a call to F
			chObjs := map[types.Object]bool{}
			ast.Inspect(f, func(n ast.Node) bool {
				as, ok := n.(*ast.AssignStmt)
				if !ok || len(as.Rhs) != 1 {
					return true
				}
				ce, ok := as.Rhs[0].(*ast.CallExpr)
				if !ok {
					return true
				}
				var callee types.Object
				switch fx := ce.Fun.(type) {
				case *ast.SelectorExpr:
					callee = info.Uses[fx.Sel]
				case *ast.Ident:
					callee = info.Uses[fx]
				}
				cf, ok := callee.(*types.Func)
				if !ok {
					return true
				}
				match := cf == fobj
				if !match && cf.Name() == fobj.Name() {
					// interface method implemented by F's receiver type
					if sig := cf.Type().(*types.Signature); sig.Recv() != nil {
						if it, ok := sig.Recv().Type().Underlying().(*types.Interface); ok && F.Signature.Recv() != nil {
							if types.Implements(F.Signature.Recv().Type(), it) {
								match = true
							}
						}
					}
				}
				if !match {
					return true
				}
				for _, l := range as.Lhs {
					if o := objOf(info, l); o != nil {
						if _, isChan := o.Type().Underlying().(*types.Chan); isChan {
							chObjs[o] = true
						}
					}
				}
				return true
			})
			if len(chObjs) == 0 {
				continue
			}
			ast.Inspect(f, func(n ast.Node) bool {
				rs, ok := n.(*ast.RangeStmt)
				if !ok {
					return true
				}
				if o := objOf(info, rs.X); o != nil && chObjs[o] {
					fd := enclosingFuncDecl(f, rs.Pos())
					name := relPkg(c.P, pk.PkgPath) + "." + enclosingDeclName(f, rs.Pos())
					out = append(out, consumerLoop{pk: pk, file: f, fd: fd, rs: rs, fnName: name})
				}
				return true
			})
		}
	}
	sort.Slice(out, func(i, j int) bool { return out[i].rs.Pos() < out[j].rs.Pos() })
	return out
}

var _ = core.ModPath

// dominatedByNonNilTest: b is dominated by the true branch of some `x != nil`.
func dominatedByNonNilTest(b *ssa.BasicBlock) bool {
	// every path from the entry to b takes the non-nil side of some nil test (`x != nil`, also as
	// one operand of `a != nil || b != nil`): b is unreachable once those edges are removed
	fn := b.Parent()
	if fn == nil || len(fn.Blocks) == 0 {
		return false
	}
	seen := map[*ssa.BasicBlock]bool{fn.Blocks[0]: true}
	work := []*ssa.BasicBlock{fn.Blocks[0]}
	for len(work) > 0 {
		p := work[0]
		work = work[1:]
		if p == b {
			return false
		}
		var nonNilSucc *ssa.BasicBlock
		if ifi, ok := p.Instrs[len(p.Instrs)-1].(*ssa.If); ok && p.Succs[0] != p.Succs[1] {
			if _, trueIsNil, ok := nilTestOf(ifi.Cond); ok {
				if trueIsNil {
					nonNilSucc = p.Succs[1]
				} else {
					nonNilSucc = p.Succs[0]
				}
			}
		}
		for _, sc := range p.Succs {
			if sc == nonNilSucc || seen[sc] {
				continue
			}
			seen[sc] = true
			work = append(work, sc)
		}
	}
	return true
}

// checkWorkersDrain: a goroutine that ranges over a channel fed by a producer
// goroutine must not leave the loop early (return/break) unless the function
// drains the channel after the join; otherwise the producer blocks on a full
// channel forever once every worker has left.
func (c *Ctx) checkWorkersDrain(r *fnRef, rule string) {
	L := c.L
	if !r.ok() {
		return
	}
	L.Rule(rule, "in a worker goroutine, the loop `for x := range work` is left only when the channel is closed (no return or break inside it) — or the function drains the channel after the workers have finished (a closing goroutine with `for range work {}` after wg.Wait); otherwise a failing item makes every worker leave while the producer still sends, and the call never returns")
	F := r.F
	clos, _ := closuresOf(F)
	// is there a drain loop after a Wait somewhere (in F or a goroutine of F)?
	drained := false
	for _, g := range withAnons(F) {
		var wait ssa.Instruction
		allInstrs(g, func(in ssa.Instruction) {
			if cc := callOf(in); cc != nil && isSyncMethod(cc, "WaitGroup", "Wait") {
				wait = in
			}
		})
		if wait == nil {
			continue
		}
		for _, lp := range chanRangeLoops(g) {
			// empty-bodied range loop dominated by the Wait
			if instrDominates(wait, lp.Head.Instrs[0]) && len(lp.Blocks) <= 2 {
				drained = true
			}
		}
	}
	n := 0
	for _, ci := range clos {
		if ci.via == nil {
			continue
		}
		for _, lp := range chanRangeLoops(ci.fn) {
			if len(lp.Blocks) <= 2 {
				continue // a drain loop itself
			}
			n++
			early := ""
			for b := range lp.Blocks {
				for _, s := range b.Succs {
					if lp.Blocks[s] {
						continue
					}
					if b == lp.Head {
						continue // normal exit: channel closed
					}
					early = c.P.Pos(b.Instrs[len(b.Instrs)-1].Pos())
					if early == "-" {
						early = "block " + b.Comment
					}
				}
				if _, isRet := b.Instrs[len(b.Instrs)-1].(*ssa.Return); isRet {
					early = c.P.Pos(b.Instrs[len(b.Instrs)-1].Pos())
					if early == "-" {
						early = "a return in block " + b.Comment
					}
				}
			}
			name := "worker loop in " + c.P.FuncName(ci.fn)
			pos := c.P.Pos(lp.Head.Instrs[0].Pos())
			switch {
			case early == "":
				L.OK(rule, r.label, name, pos, "the loop is left only when the channel is closed")
			case drained:
				L.OK(rule, r.label, name, pos, "the loop can be left early ("+early+") but the channel is drained after the workers have finished")
			default:
				L.Bad(rule, r.label, name, pos, "a worker can leave its receive loop early ("+early+") and nothing drains the channel: when all workers have left, the producer blocks on the full channel and the call never returns")
			}
		}
	}
	if n == 0 {
		L.Unknown(rule, r.label, "worker loops", c.P.Pos(F.Pos()), "no worker goroutine ranging over a channel found")
	}
}
