package rules

import (
	"fmt"
	"os"
	"go/token"
	"go/types"
	"strings"

	"golang.org/x/tools/go/ssa"
)

// A computed result that the object keeps. A method that computes a matrix or a vector and
// returns it must not also keep it in its receiver (or hand out a buffer it keeps there and
// refills on the next call): the caller's result of the first call is rewritten by the second.
// Plain getters — methods without a loop that return a field — are not concerned.
type keptResult struct {
	ret  *ssa.Return
	what string
}

func keptResults(fn *ssa.Function) []keptResult {
	var out []keptResult
	if fn.Signature.Recv() == nil || len(fn.Params) == 0 || len(naturalLoops(fn)) == 0 {
		return nil
	}
	recv := fn.Params[0]
	isRef := func(t types.Type) bool {
		switch t.Underlying().(type) {
		case *types.Slice, *types.Map, *types.Pointer:
			return true
		}
		return false
	}
	fieldOfRecv := func(addr ssa.Value) bool {
		fa, ok := addr.(*ssa.FieldAddr)
		return ok && isRecvValue(fa.X, recv)
	}
	for _, b := range fn.Blocks {
		ret, ok := b.Instrs[len(b.Instrs)-1].(*ssa.Return)
		if !ok {
			continue
		}
		for _, rv := range ret.Results {
			if !isRef(rv.Type()) {
				continue
			}
			for v := range throughPhis(rv, true) {
				// returned value is a buffer kept in the receiver
				if u, ok := v.(*ssa.UnOp); ok && u.Op == token.MUL && fieldOfRecv(u.X) {
					out = append(out, keptResult{ret, "returns the buffer kept in a field of the receiver"})
				}
				// or is stored into the receiver as well
				if v.Referrers() != nil {
					for _, r := range *v.Referrers() {
						if st, ok := r.(*ssa.Store); ok && st.Val == v && fieldOfRecv(st.Addr) {
							out = append(out, keptResult{ret, "stores the returned value into a field of the receiver"})
						}
					}
				}
			}
		}
	}
	return out
}

func (c *Ctx) checkKeptResults(rule string, rels ...string) {
	L := c.L
	L.Rule(rule, "a method that computes its result in a loop does not return a buffer that it also keeps in its receiver: two calls give two independent results")
	n, nf := 0, 0
	for _, fn := range c.P.SrcFuncs(rels...) {
		nf++
		ks := keptResults(fn)
		if len(ks) == 0 {
			continue
		}
		n++
		var w []string
		for _, k := range ks {
			w = append(w, k.what+" at "+c.P.Pos(k.ret.Pos()))
		}
		L.Bad(rule, c.P.FuncName(fn), "computed result kept in the receiver", c.P.Pos(fn.Pos()), "the result handed to the caller stays reachable from the object and is rewritten by the next call: "+strings.Join(dedupe(w), "; "))
	}
	L.Trivial(rule, strings.Join(rels, ","), "methods scanned", "-", fmt.Sprintf("%d functions, %d computing methods that keep their result", nf, n))
	if cp := c.Controls(); cp != nil {
		fired, silent := false, true
		for _, fn := range cp.SrcFuncs() {
			k := len(keptResults(fn))
			if os.Getenv("VERIF_DEBUG_KEPT") != "" && (fn.Name() == "DistKept" || fn.Name() == "DistFresh") {
				fmt.Fprintf(os.Stderr, "KEPT %s %d loops=%d\n", fn.Name(), k, len(naturalLoops(fn)))
			}
			if fn.Name() == "DistKept" && k > 0 {
				fired = true
			}
			if fn.Name() == "DistFresh" && k > 0 {
				silent = false
			}
		}
		L.ControlMustFire(rule, fired && silent, "controls/keptresult.go: a method returning its own cache must be flagged, one returning a fresh matrix must not")
	}
}
