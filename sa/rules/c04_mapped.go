package rules

import (
	"fmt"
	"strings"

	"golang.org/x/tools/go/ssa"
)

// Coordinates given on a reference sequence are converted to alignment columns by
// RefCoordinates / RefSites. Once a command has converted them, the unconverted values must not
// reach the alignment API any more in the handling of the same alignment: `--reverse` applied to
// the raw site list, a window cut with the raw start, address the wrong columns whenever the
// reference row has gaps — each option alone still works.
//
// Rule: in the command functions, a value handed to RefCoordinates/RefSites as the coordinates
// to convert is not an argument of any other call into package align that is reachable from the
// conversion within the same iteration of the enclosing loop.
func (c *Ctx) checkMappedCoordinatesUsed(rule string) {
	L := c.L
	L.Rule(rule, "after a command has converted reference coordinates with RefCoordinates/RefSites, the unconverted values are not passed to any other function of the alignment API while the same alignment is handled")
	n := 0
	for _, fn := range c.P.SrcFuncs() {
		top := fn
		for top.Parent() != nil {
			top = top.Parent()
		}
		if top.Pkg == nil || relPkg(c.P, top.Pkg.Pkg.Path()) != "cmd" {
			continue
		}
		loops := naturalLoops(fn)
		allInstrs(fn, func(in ssa.Instruction) {
			ci, ok := in.(ssa.CallInstruction)
			if !ok {
				return
			}
			cc := ci.Common()
			name := ""
			if cc.IsInvoke() {
				name = cc.Method.Name()
			} else if f := cc.StaticCallee(); f != nil {
				name = f.Name()
			}
			if name != "RefCoordinates" && name != "RefSites" {
				return
			}
			// the coordinates: every non-constant, non-string argument
			var raw []ssa.Value
			for _, a := range cc.Args {
				if _, isK := a.(*ssa.Const); isK {
					continue
				}
				if isStringType(a.Type()) {
					continue
				}
				if cc.IsInvoke() || a != cc.Args[0] || cc.Signature().Recv() == nil {
					raw = append(raw, a)
				}
			}
			if !cc.IsInvoke() && cc.Signature().Recv() != nil && len(raw) > 0 && len(cc.Args) > 0 && raw[0] == cc.Args[0] {
				raw = raw[1:] // the receiver
			}
			if len(raw) == 0 {
				return
			}
			n++
			// the coordinates handed to the conversion are not, through the variables of the loop, the
			// result of the same conversion for an earlier alignment (a window converted twice)
			{
				reapplied := ""
				for _, rv := range raw {
					seen := map[ssa.Value]bool{}
					var back func(v ssa.Value, d int) bool
					back = func(v ssa.Value, d int) bool {
						if d > 8 || seen[v] {
							return false
						}
						seen[v] = true
						switch x := v.(type) {
						case *ssa.Phi:
							for _, e := range x.Edges {
								if back(e, d+1) {
									return true
								}
							}
						case *ssa.Extract:
							return x.Tuple == ssa.Value(in.(ssa.Value))
						}
						return false
					}
					if back(rv, 0) {
						reapplied = rv.Name()
					}
				}
				label := c.P.FuncName(fn)
				L.Check(reapplied == "", rule, label, name+" applied to the given coordinates", c.P.Pos(in.Pos()),
					"the converted values do not flow back into the conversion",
					"the coordinates handed to the conversion are, on a path around the enclosing loop, the result of the same conversion for the previous alignment: from the second alignment of the input on the window is converted twice")
			}
			// region: what can execute after the call without starting another iteration of a loop that contains it
			b0 := in.Block()
			isBack := func(from, to *ssa.BasicBlock) bool {
				for _, lp := range loops {
					if lp.Head == to && lp.Blocks[from] && lp.Blocks[b0] {
						return true
					}
				}
				return false
			}
			region := map[*ssa.BasicBlock]bool{}
			var work []*ssa.BasicBlock
			for _, s := range b0.Succs {
				if !isBack(b0, s) {
					work = append(work, s)
				}
			}
			for len(work) > 0 {
				b := work[len(work)-1]
				work = work[:len(work)-1]
				if region[b] {
					continue
				}
				region[b] = true
				for _, s := range b.Succs {
					if !isBack(b, s) {
						work = append(work, s)
					}
				}
			}
			var bad []string
			visit := func(x ssa.Instruction) {
				ci2, ok := x.(ssa.CallInstruction)
				if !ok || x == in {
					return
				}
				cc2 := ci2.Common()
				inAlign := false
				callee := ""
				if cc2.IsInvoke() {
					if nt := namedOf(cc2.Value.Type()); nt != nil && nt.Obj().Pkg() != nil && strings.HasSuffix(nt.Obj().Pkg().Path(), "/align") {
						inAlign = true
					}
					callee = cc2.Method.Name()
				} else if f := cc2.StaticCallee(); f != nil && f.Pkg != nil && strings.HasSuffix(f.Pkg.Pkg.Path(), "/align") {
					inAlign = true
					callee = f.Name()
				}
				if !inAlign {
					return
				}
				for _, a := range cc2.Args {
					for _, r := range raw {
						if a == r {
							bad = append(bad, fmt.Sprintf("%s(… %s …) at %s", callee, r.Name(), c.P.Pos(x.Pos())))
						}
					}
				}
			}
			after := false
			for _, x := range b0.Instrs {
				if after {
					visit(x)
				}
				if x == in {
					after = true
				}
			}
			for b := range region {
				if b == b0 {
					continue // reached again only through an outer loop
				}
				for _, x := range b.Instrs {
					visit(x)
				}
			}
			label := c.P.FuncName(fn)
			if len(bad) == 0 {
				L.OK(rule, label, name+" conversion", c.P.Pos(in.Pos()), fmt.Sprintf("%d unconverted value(s); none reaches another call into package align in the %d block(s) that follow the conversion", len(raw), len(region)))
			} else {
				L.Bad(rule, label, name+" conversion", c.P.Pos(in.Pos()), "coordinates given on the reference are used unconverted after they have been converted: "+strings.Join(dedupe(bad), ", ")+" — with a gapped reference row these address other columns than the converted ones")
			}
		})
	}
	L.Floor(rule, 2, "RefCoordinates in extract, mask and subseq, RefSites in subsites on the pinned tree")
}

func isStringType(t interface{ String() string }) bool { return t.String() == "string" }
