package rules

import (
	"fmt"
	"go/types"
	"os"
	"sort"

	"golang.org/x/tools/go/ssa"
)

// Buffers handed to a container. AddSequenceChar keeps the slice it is given as the row's buffer.
// A call inside a loop must therefore hand over a buffer made in that very iteration: a buffer
// created before the loop, or kept in a variable from one iteration to the next ("built only
// once"), becomes the storage of several rows at the same time, and a later in-place edit or append
// on one row shows in the others.
type sharedBuf struct {
	fn   *ssa.Function
	call *ssa.Call
	arg  ssa.Value
}

func retainingCallee(cc *ssa.CallCommon) bool {
	name := ""
	if cc.IsInvoke() {
		name = cc.Method.Name()
	} else if f := cc.StaticCallee(); f != nil && f.Signature.Recv() != nil {
		name = f.Name()
	}
	return name == "AddSequenceChar"
}

func sharedBuffersInLoops(fn *ssa.Function) []sharedBuf {
	var out []sharedBuf
	for _, f := range withAnons(fn) {
		loops := naturalLoops(f)
		if len(loops) == 0 && f.Parent() == nil {
			continue
		}
		allInstrs(f, func(in ssa.Instruction) {
			call, ok := in.(*ssa.Call)
			if !ok || !retainingCallee(call.Common()) {
				return
			}
			args := call.Common().Args
			var buf ssa.Value
			for _, a := range args {
				if isByteSlice(a.Type()) {
					buf = a
				}
			}
			if buf == nil {
				return
			}
			// inside an iterator callback: a buffer read from a captured variable outlives the call
			if f.Parent() != nil {
				fromCapture := false
				seen := map[ssa.Value]bool{}
				var rec func(v ssa.Value)
				rec = func(v ssa.Value) {
					if seen[v] {
						return
					}
					seen[v] = true
					switch x := v.(type) {
					case *ssa.Phi:
						for _, e := range x.Edges {
							rec(e)
						}
					case *ssa.Slice:
						rec(x.X)
					case *ssa.ChangeType:
						rec(x.X)
					case *ssa.UnOp:
						if _, isFV := x.X.(*ssa.FreeVar); isFV {
							fromCapture = true
						}
					case *ssa.FreeVar:
						fromCapture = true
					}
				}
				rec(buf)
				if fromCapture {
					out = append(out, sharedBuf{f, call, buf})
					return
				}
			}
			for _, lp := range loops {
				if !lp.Blocks[call.Block()] {
					continue
				}
				// every value the argument can be is made inside this loop, and none comes round
				// the loop through a header φ
				bad := false
				seen := map[ssa.Value]bool{}
				var rec func(v ssa.Value)
				rec = func(v ssa.Value) {
					if seen[v] || bad {
						return
					}
					seen[v] = true
					switch x := v.(type) {
					case *ssa.Phi:
						if x.Block() == lp.Head {
							bad = true
							return
						}
						if !lp.Blocks[x.Block()] {
							bad = true
							return
						}
						for _, e := range x.Edges {
							rec(e)
						}
					case *ssa.Const:
					case *ssa.Slice:
						rec(x.X)
					case *ssa.ChangeType:
						rec(x.X)
					case ssa.Instruction:
						if !lp.Blocks[x.Block()] {
							bad = true
						}
					default:
						// parameter, free variable, global: made outside
						bad = true
					}
				}
				rec(buf)
				if bad {
					out = append(out, sharedBuf{f, call, buf})
					break
				}
			}
		})
	}
	return out
}

func (c *Ctx) debugRetain() {
	if os.Getenv("VERIF_DEBUG_RETAIN") == "" {
		return
	}
	var lines []string
	for _, fn := range c.P.SrcFuncs() {
		for _, sb := range sharedBuffersInLoops(fn) {
			lines = append(lines, fmt.Sprintf("RETAIN %s: %s at %s", c.P.FuncName(sb.fn), sb.arg.Name(), c.P.Pos(sb.call.Pos())))
		}
	}
	sort.Strings(lines)
	for _, l := range lines {
		fmt.Fprintln(os.Stderr, l)
	}
}

func isByteSlice(t types.Type) bool {
	sl, ok := t.Underlying().(*types.Slice)
	if !ok {
		return false
	}
	b, ok := sl.Elem().Underlying().(*types.Basic)
	return ok && b.Kind() == types.Uint8
}

// checkHandedOverBuffers: no call of AddSequenceChar inside a loop passes a buffer that exists
// across iterations of that loop.
func (c *Ctx) checkHandedOverBuffers(rule string, rels ...string) {
	L := c.L
	if c.Thorough() {
		rels = nil // thorough tier: every package of the module
	}
	L.Rule(rule, "AddSequenceChar keeps the slice it receives as the row's storage: a call inside a loop passes a buffer made in that iteration — never one created before the loop or carried from one iteration to the next, which would make several rows share one backing array")
	nCalls := 0
	reported := map[*ssa.Call]bool{}
	for _, fn := range c.srcFuncs(rels...) {
		if fn.Parent() != nil {
			continue // reached through its parent
		}
		for _, f := range withAnons(fn) {
			if len(naturalLoops(f)) == 0 {
				continue
			}
			allInstrs(f, func(in ssa.Instruction) {
				if call, ok := in.(*ssa.Call); ok && retainingCallee(call.Common()) && innermostLoopOf(naturalLoops(f), call.Block()) != nil {
					nCalls++
				}
			})
		}
		for _, sb := range sharedBuffersInLoops(fn) {
			if reported[sb.call] {
				continue
			}
			reported[sb.call] = true
			root := sb.fn
			for root.Parent() != nil && root.Parent().Synthetic == "" {
				root = root.Parent()
			}
			L.Bad(rule, c.P.FuncName(c.origFn(root)), "buffer passed to AddSequenceChar in a loop", c.P.Pos(sb.call.Pos()),
				"the buffer handed to AddSequenceChar can be the same slice in several iterations of the enclosing loop (it is created before the loop or kept in a variable across iterations): the rows added share their storage")
		}
	}
	L.OK(rule, "scope", fmt.Sprintf("packages %v", rels), "-", fmt.Sprintf("%d calls of AddSequenceChar inside loops examined", nCalls))
	if cp := c.Controls(); cp != nil {
		n := 0
		for _, fn := range cp.SrcFuncs() {
			if fn.Parent() == nil {
				n += len(sharedBuffersInLoops(fn))
			}
		}
		L.ControlMustFire(rule, n > 0, "controls.SharedRowBuffer passes one buffer to AddSequenceChar in every iteration")
	}
}
