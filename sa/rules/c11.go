package rules

import (
	"fmt"
	"go/token"
	"strings"

	"golang.org/x/tools/go/ssa"
)

func init() {
	register(&Property{ID: "C11", Run: runC11,
		Explanation: "Static decision of the reproducibility clauses of C11 that are visible in the shape of the code, repository-wide (all 23 packages including cmd/): (a) every range over a map is classified as order-insensitive, collect-then-sort, or order-sensitive (violation unless a reasoned exception); (b) wall-clock time, re-seeding and alternative random sources may only appear at the single seeding point (time.Now only as the default seed under seed == -1, rand.Seed once with the seed variable); (c) no draw from the global random stream is reachable (call graph) from any goroutine; (d) a channel with several concurrent senders must not feed an order-preserving consumer (output written in arrival order). Not decided: byte identity of actual runs, format-chain idempotence, equality of distboot with bootstrap+compute distance."})
}

// reasoned exceptions for order-sensitive map traversals (checked by reading)
var c11MapExceptions = []mrException{
	{Func: "cmd.parseGFFFile", Map: "coordsMap", Why: "genes are returned in map order, but `extract` writes each gene to its own output file named after the gene; no output byte depends on the order on success"},
	{Func: "cmd.var subsetCmd", Map: "subset", Why: "indexlist/regexps are built from the map and used for membership tests only (any-match), which are order-insensitive — re-established on every run: the slice parameters of matchSeqName are only scanned",
		Holds: func(c *Ctx) (bool, string) { return c.sliceParamsScannedOnly("cmd", "matchSeqName") }},
}

func runC11(c *Ctx) {
	L := c.L
	c.debugStale()
	c.debugErrLost()
	c.debugLoopTables()
	c.debugRetain()
	c.debugCloseGo()
	n := c.checkMapRanges("map-order", nil, c11MapExceptions)
	L.Floor("map-order", 5, "14 range-over-map sites were confirmed by hand on the pinned tree (13 after the Pssm fix); the floor leaves room for legitimate rewrites (floor = half of the instances on the pinned tree: a clean-up may merge instances, a rule that sees nothing must still fail)")
	_ = n

	c.checkNondetCalls()

	L.Rule("rng-in-goroutine", "no top-level math/rand function (global stream) and no gonum distuv Rand is reachable through the call graph from the function operand of any `go` statement; otherwise the order of draws depends on scheduling")
	sites, _ := c.checkNoRNGInGoroutines("rng-in-goroutine", c.P, L, true)
	L.Floor("rng-in-goroutine", 3, "go statements in align, distance/dna, cmd confirmed by hand (floor = half of the instances on the pinned tree: a clean-up may merge instances, a rule that sees nothing must still fail)")
	L.Note("go statements analysed: %d", sites)
	if cp := c.Controls(); cp != nil {
		_, fired := c.checkNoRNGInGoroutines("rng-in-goroutine", cp, L, false)
		L.ControlMustFire("rng-in-goroutine", fired, "controls/rnggo.go draws rand.Intn inside a goroutine")
	}

	c.checkFanInOrder("fan-in-order")
	c.checkNoLibraryGlobalWrites("library-global-state")
	c.checkRngLockstep("rng-lockstep")
	L.Note("packages analysed: %d (whole repository)", len(c.P.Pkgs))
	c.checkRootHooks("root-hook-only")
}

func (c *Ctx) checkNondetCalls() {
	L := c.L
	L.Rule("nondet-source", "calls to time.Now/Since, rand.Seed/New/NewSource, crypto/rand, x/exp/rand, os.Getpid/Hostname are allowed only at the seeding point: time.Now under the guard `seed == -1` with its value stored to the seed variable, rand.Seed exactly once with that variable; any other site makes output depend on something other than input, flags and seed")
	sites := nondetCallSites(c.P)
	nSeed := 0
	for _, s := range sites {
		name := c.P.FuncName(s.fn)
		pos := c.P.Pos(s.in.Pos())
		switch s.what {
		case "time.Now":
			ok, why := c.isDefaultSeedOnly(s)
			if ok {
				L.OK("nondet-source", name, "time.Now", pos, why)
			} else {
				L.Bad("nondet-source", name, "time.Now", pos, "wall-clock time reaches program output or state other than the default seed: "+why)
			}
		case "rand.Seed":
			nSeed++
			cc := callOf(s.in)
			okArg := false
			if u, ok := cc.Args[0].(*ssa.UnOp); ok && u.Op == token.MUL {
				if g, ok := u.X.(*ssa.Global); ok && g.Name() == "seed" {
					okArg = true
				}
			}
			// through a phi of (loaded seed, time-derived) is fine as well
			if !okArg {
				for _, lf := range phiLeaves(cc.Args[0]) {
					if u, ok := lf.(*ssa.UnOp); ok && u.Op == token.MUL {
						if g, ok := u.X.(*ssa.Global); ok && g.Name() == "seed" {
							okArg = true
						}
					}
				}
			}
			if !okArg {
				okArg = seedThroughHelper(cc.Args[0], s.fn)
			}
			L.Check(okArg && nSeed == 1, "nondet-source", name, "rand.Seed", pos, "single seeding site, argument is the --seed variable",
				fmt.Sprintf("rand.Seed site #%d (argument is the seed variable: %v); the stream must be seeded exactly once from --seed", nSeed, okArg))
		default:
			L.Bad("nondet-source", name, s.what, pos, "source of nondeterminism outside the seeding point")
		}
	}
	if nSeed == 0 {
		L.Bad("nondet-source", "cmd", "rand.Seed", "-", "the global random stream is never seeded from --seed")
	}
	L.Floor("nondet-source", 2, "time.Now default seed + rand.Seed")
	if cp := c.Controls(); cp != nil {
		L.ControlMustFire("nondet-source", len(nondetCallSites(cp)) > 0, "controls/nondet.go calls time.Now")
	}
}

// isDefaultSeedOnly: the time.Now call executes only under `seed == -1` and
// every use chain of its result ends in a store to the global `seed`.
func (c *Ctx) isDefaultSeedOnly(s callSiteRef) (bool, string) {
	v, ok := s.in.(ssa.Value)
	if !ok {
		return false, "result not a value"
	}
	// guard
	guarded := false
	b := s.in.Block()
	for d := b.Idom(); d != nil; d = d.Idom() {
		if len(d.Instrs) == 0 {
			continue
		}
		ifi, ok := d.Instrs[len(d.Instrs)-1].(*ssa.If)
		if !ok {
			continue
		}
		bo, ok := ifi.Cond.(*ssa.BinOp)
		if !ok || bo.Op != token.EQL {
			continue
		}
		if k, ok := constInt(bo.Y); ok && k == -1 {
			if u, ok := bo.X.(*ssa.UnOp); ok {
				if g, ok := u.X.(*ssa.Global); ok && g.Name() == "seed" && d.Succs[0].Dominates(b) && len(d.Succs[0].Preds) == 1 {
					guarded = true
				}
			}
		}
	}
	if !guarded {
		return false, "call is not guarded by `seed == -1`"
	}
	// flow: follow referrers through method calls on time.Time and conversions
	seen := map[ssa.Value]bool{}
	work := []ssa.Value{v}
	for len(work) > 0 {
		x := work[len(work)-1]
		work = work[:len(work)-1]
		if seen[x] {
			continue
		}
		seen[x] = true
		refs := x.Referrers()
		if refs == nil {
			continue
		}
		for _, r := range *refs {
			switch y := r.(type) {
			case *ssa.Store:
				if g, ok := y.Addr.(*ssa.Global); ok && g.Name() == "seed" {
					continue
				}
				if a, ok := y.Addr.(*ssa.Alloc); ok {
					work = append(work, a)
					continue
				}
				return false, "value stored to " + y.Addr.String()
			case *ssa.Call:
				f := y.Common().StaticCallee()
				if f != nil && f.Pkg != nil && f.Pkg.Pkg.Path() == "time" {
					work = append(work, y)
					continue
				}
				return false, "value passed to " + y.Common().String()
			case *ssa.UnOp, *ssa.Convert, *ssa.ChangeType, *ssa.Phi:
				work = append(work, r.(ssa.Value))
			case *ssa.DebugRef:
			default:
				return false, "value used by " + strings.TrimSpace(r.String())
			}
		}
	}
	return true, "executes only when seed == -1 and its value only reaches the seed variable"
}

// seedThroughHelper: v is the result of a private helper of fn's package whose every returned value
// is a load of the seed variable.
func seedThroughHelper(v ssa.Value, fn *ssa.Function) bool {
	call, isCall := v.(*ssa.Call)
	if !isCall {
		return false
	}
	g := call.Common().StaticCallee()
	pk := fn.Pkg
	if pk == nil && fn.Parent() != nil {
		pk = fn.Parent().Pkg
	}
	if g == nil || g.Pkg != pk || token.IsExported(g.Name()) || len(g.Blocks) == 0 || g.Signature.Results().Len() != 1 {
		return false
	}
	all, n := true, 0
	allInstrs(g, func(in ssa.Instruction) {
		ret, ok := in.(*ssa.Return)
		if !ok {
			return
		}
		for _, lf := range phiLeaves(ret.Results[0]) {
			n++
			u, ok := lf.(*ssa.UnOp)
			if !ok || u.Op != token.MUL {
				all = false
				continue
			}
			if gl, ok := u.X.(*ssa.Global); !ok || gl.Name() != "seed" {
				all = false
			}
		}
	})
	return all && n > 0
}
