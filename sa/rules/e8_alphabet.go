package rules

import (
	"fmt"
	"go/ast"
	"go/token"
	"go/types"
	"sort"
	"strings"

	"golang.org/x/tools/go/packages"
)

// E8 — alphabet ↔ constant agreement.
//
// Wherever one of the alphabet-specific objects of package align (the wildcard
// constants ALL_AMINO / ALL_NUCLE, the residue tables stdaminoacid /
// stdnucleotides) is used, the alphabet comparisons that control the use
// (enclosing if / else-if / else arms, or the "default then override" idiom
// `x := W1; if alpha == K { x = W2 }`) must select the object of the same
// alphabet. Objects are identified through go/types (types.Info.Uses), not by
// spelling or value.

type alphaSite struct {
	Func    string // declaration name
	Obj     string // ALL_AMINO, ALL_NUCLE, stdaminoacid, stdnucleotides
	Pos     token.Pos
	Implied string // "amino" | "nucl" | "" (no controlling comparison) | "conflict"
	How     string // the controlling comparisons, rendered
}

var alphaObjClass = map[string]string{
	"ALL_AMINO": "amino", "ALL_NUCLE": "nucl",
	"stdaminoacid": "amino", "stdnucleotides": "nucl",
}

type alphaAtom struct {
	expr string // the alphabet expression compared
	eq   bool
	k    string // AMINOACIDS | NUCLEOTIDS | BOTH | UNKNOWN
}

func (a alphaAtom) String() string {
	op := "=="
	if !a.eq {
		op = "!="
	}
	return a.expr + " " + op + " " + a.k
}

// alphaAtoms extracts the alphabet comparisons that hold when cond has the
// given truth value.
func alphaAtoms(info *types.Info, cond ast.Expr, truth bool) []alphaAtom {
	switch x := cond.(type) {
	case *ast.ParenExpr:
		return alphaAtoms(info, x.X, truth)
	case *ast.UnaryExpr:
		if x.Op == token.NOT {
			return alphaAtoms(info, x.X, !truth)
		}
	case *ast.BinaryExpr:
		switch x.Op {
		case token.LAND:
			if truth {
				return append(alphaAtoms(info, x.X, true), alphaAtoms(info, x.Y, true)...)
			}
			return nil
		case token.LOR:
			if !truth {
				return append(alphaAtoms(info, x.X, false), alphaAtoms(info, x.Y, false)...)
			}
			return nil
		case token.EQL, token.NEQ:
			for _, pair := range [][2]ast.Expr{{x.X, x.Y}, {x.Y, x.X}} {
				id, ok := pair[1].(*ast.Ident)
				if !ok {
					if se, ok2 := pair[1].(*ast.SelectorExpr); ok2 {
						id = se.Sel
					} else {
						continue
					}
				}
				o, ok := info.Uses[id].(*types.Const)
				if !ok || o.Pkg() == nil || !strings.HasSuffix(o.Pkg().Path(), "/align") {
					continue
				}
				switch o.Name() {
				case "AMINOACIDS", "NUCLEOTIDS", "BOTH", "UNKNOWN":
					eq := x.Op == token.EQL
					if !truth {
						eq = !eq
					}
					return []alphaAtom{{types.ExprString(pair[0]), eq, o.Name()}}
				}
			}
		}
	}
	return nil
}

func classOfAtoms(atoms []alphaAtom) (string, string) {
	var how []string
	pos := map[string]bool{}
	neg := map[string]bool{}
	exprs := map[string]bool{}
	for _, a := range atoms {
		how = append(how, a.String())
		exprs[a.expr] = true
		cl := ""
		switch a.k {
		case "AMINOACIDS":
			cl = "amino"
		case "NUCLEOTIDS":
			cl = "nucl"
		default:
			continue
		}
		if a.eq {
			pos[cl] = true
		} else {
			neg[cl] = true
		}
	}
	sort.Strings(how)
	h := strings.Join(how, " && ")
	if len(exprs) > 1 {
		return "mixed", h
	}
	switch {
	case pos["amino"] && pos["nucl"], pos["amino"] && neg["amino"], pos["nucl"] && neg["nucl"]:
		return "conflict", h
	case pos["amino"]:
		return "amino", h
	case pos["nucl"]:
		return "nucl", h
	case neg["amino"] && neg["nucl"]:
		return "neither", h
	case neg["amino"]:
		return "nucl", h // default-nucleotide idiom: "not amino acids"
	case neg["nucl"]:
		return "amino", h
	}
	return "", h
}

func alphabetSites(pk *packages.Package) []alphaSite {
	var out []alphaSite
	info := pk.TypesInfo
	// package-level tables keyed by the alphabet constants: `map[int]T{AMINOACIDS: …ALL_AMINO…}`;
	// the key selects the alphabet the value serves
	for _, f := range pk.Syntax {
		for _, d := range f.Decls {
			gd, ok := d.(*ast.GenDecl)
			if !ok || gd.Tok != token.VAR {
				continue
			}
			for _, sp := range gd.Specs {
				vs, ok := sp.(*ast.ValueSpec)
				if !ok {
					continue
				}
				for _, val := range vs.Values {
					cl, ok := val.(*ast.CompositeLit)
					if !ok {
						continue
					}
					for _, el := range cl.Elts {
						kv, ok := el.(*ast.KeyValueExpr)
						if !ok {
							continue
						}
						kid, ok := kv.Key.(*ast.Ident)
						if !ok {
							continue
						}
						ko, ok := info.Uses[kid].(*types.Const)
						if !ok || (ko.Name() != "AMINOACIDS" && ko.Name() != "NUCLEOTIDS") {
							continue
						}
						implied := map[string]string{"AMINOACIDS": "amino", "NUCLEOTIDS": "nucl"}[ko.Name()]
						ast.Inspect(kv.Value, func(n ast.Node) bool {
							id, ok := n.(*ast.Ident)
							if !ok {
								return true
							}
							o := info.Uses[id]
							if o == nil || o.Pkg() == nil {
								return true
							}
							if _, known := alphaObjClass[o.Name()]; !known {
								return true
							}
							out = append(out, alphaSite{Func: "(package-level table)", Obj: o.Name(), Pos: id.Pos(), Implied: implied, How: "table entry under key " + ko.Name()})
							return true
						})
					}
				}
			}
		}
	}
	for _, f := range pk.Syntax {
		for _, d := range f.Decls {
			fd, ok := d.(*ast.FuncDecl)
			if !ok || fd.Body == nil {
				continue
			}
			var stack []ast.Node
			ast.Inspect(fd, func(n ast.Node) bool {
				if n == nil {
					stack = stack[:len(stack)-1]
					return true
				}
				stack = append(stack, n)
				id, ok := n.(*ast.Ident)
				if !ok {
					return true
				}
				o := info.Uses[id]
				if o == nil || o.Pkg() == nil || !strings.HasSuffix(o.Pkg().Path(), "/align") {
					return true
				}
				if _, known := alphaObjClass[o.Name()]; !known {
					return true
				}
				if _, isVar := o.(*types.Var); isVar && o.Parent() != o.Pkg().Scope() {
					return true
				}
				// controlling comparisons from enclosing if / switch arms
				var atoms []alphaAtom
				for i := len(stack) - 2; i >= 0; i-- {
					child := stack[i+1]
					switch p := stack[i].(type) {
					case *ast.IfStmt:
						if child == ast.Node(p.Body) {
							atoms = append(atoms, alphaAtoms(info, p.Cond, true)...)
						} else if p.Else != nil && child == ast.Node(p.Else) {
							atoms = append(atoms, alphaAtoms(info, p.Cond, false)...)
						}
					case *ast.CaseClause:
						// switch tag { case K: ... }
						if i > 1 {
							if sw, ok := stack[i-2].(*ast.SwitchStmt); ok && sw.Tag != nil {
								inBody := false
								for _, s := range p.Body {
									if ast.Node(s) == child {
										inBody = true
									}
								}
								if inBody && len(p.List) == 1 {
									be := &ast.BinaryExpr{X: sw.Tag, Op: token.EQL, Y: p.List[0]}
									atoms = append(atoms, alphaAtoms(info, be, true)...)
								}
							}
						}
					}
				}
				cl, how := classOfAtoms(atoms)
				if cl == "" {
					// default-then-override idiom
					if c2, h2, ok := defaultIdiom(info, stack, id); ok {
						cl, how = c2, h2
					}
				}
				out = append(out, alphaSite{Func: declName(fd), Obj: o.Name(), Pos: id.Pos(), Implied: cl, How: how})
				return true
			})
		}
	}
	sort.Slice(out, func(i, j int) bool { return out[i].Pos < out[j].Pos })
	return out
}

// defaultIdiom recognises   v := W   /  v = W   (possibly wrapped in a
// conversion) immediately governed by later sibling `if alpha == K { v = … }`
// statements of the same block: W is then the value for every alphabet not
// tested positively by the chain.
func defaultIdiom(info *types.Info, stack []ast.Node, id *ast.Ident) (string, string, bool) {
	// find the assignment statement and its block; the variable that receives the default is a
	// plain variable (`all := K`), a field (`x.all = K`) or a field of a composite literal
	// (`x := T{all: K}`)
	var asg *ast.AssignStmt
	var blk *ast.BlockStmt
	field := ""
	for i := len(stack) - 1; i >= 0; i-- {
		if kv, ok := stack[i].(*ast.KeyValueExpr); ok && field == "" {
			if k, ok := kv.Key.(*ast.Ident); ok {
				field = k.Name
			}
		}
		if a, ok := stack[i].(*ast.AssignStmt); ok && asg == nil {
			asg = a
			if i > 0 {
				blk, _ = stack[i-1].(*ast.BlockStmt)
			}
			break
		}
	}
	if asg == nil || blk == nil || len(asg.Lhs) != 1 {
		return "", "", false
	}
	var lhs *ast.Ident
	switch l := asg.Lhs[0].(type) {
	case *ast.Ident:
		lhs = l
		if _, isLit := asg.Rhs[0].(*ast.CompositeLit); !isLit {
			if u, isU := asg.Rhs[0].(*ast.UnaryExpr); !isU || u.Op != token.AND {
				field = ""
			}
		}
	case *ast.SelectorExpr:
		b, ok := l.X.(*ast.Ident)
		if !ok {
			return "", "", false
		}
		lhs, field = b, l.Sel.Name
	default:
		return "", "", false
	}
	vobj := info.Defs[lhs]
	if vobj == nil {
		vobj = info.Uses[lhs]
	}
	if vobj == nil {
		return "", "", false
	}
	// mentions of the variable that would read the default before the override
	reads := func(s ast.Stmt) bool {
		if field == "" {
			return usesObj(info, s, vobj)
		}
		found := false
		ast.Inspect(s, func(n ast.Node) bool {
			switch x := n.(type) {
			case *ast.SelectorExpr:
				if b, ok := x.X.(*ast.Ident); ok && (info.Uses[b] == vobj) {
					if x.Sel.Name == field {
						found = true
					}
					return false // another field of the struct: not a read of this one
				}
			case *ast.Ident:
				if info.Uses[x] == vobj {
					found = true // the struct as a whole (passed on, copied)
				}
			}
			return !found
		})
		return found
	}
	assigns := func(body *ast.BlockStmt) bool {
		if field == "" {
			return assignsTo(info, body, vobj)
		}
		found := false
		ast.Inspect(body, func(n ast.Node) bool {
			if a, ok := n.(*ast.AssignStmt); ok {
				for _, l := range a.Lhs {
					if se, ok := l.(*ast.SelectorExpr); ok && se.Sel.Name == field {
						if b, ok := se.X.(*ast.Ident); ok && info.Uses[b] == vobj {
							found = true
						}
					}
				}
			}
			return true
		})
		return found
	}
	after := false
	for _, s := range blk.List {
		if s == ast.Stmt(asg) {
			after = true
			continue
		}
		if !after {
			continue
		}
		ifs, ok := s.(*ast.IfStmt)
		if !ok {
			// a statement that does not read the variable may sit in between
			if reads(s) {
				return "", "", false
			}
			continue
		}
		// collect the positive classes of the chain whose arms assign v
		var neg []alphaAtom
		assigned := false
		for cur := ifs; cur != nil; {
			at := alphaAtoms(info, cur.Cond, true)
			if len(at) != 1 || !at[0].eq {
				return "", "", false
			}
			if assigns(cur.Body) {
				assigned = true
			}
			neg = append(neg, alphaAtom{at[0].expr, false, at[0].k})
			switch e := cur.Else.(type) {
			case *ast.IfStmt:
				cur = e
			case *ast.BlockStmt:
				// final else: the default never survives when it assigns v
				if assigns(e) {
					return "neither", "overwritten by the final else", true
				}
				cur = nil
			default:
				cur = nil
			}
		}
		if !assigned {
			return "", "", false
		}
		cl, how := classOfAtoms(neg)
		return cl, "default value kept when " + how, true
	}
	return "", "", false
}

func assignsTo(info *types.Info, body *ast.BlockStmt, o types.Object) bool {
	found := false
	ast.Inspect(body, func(n ast.Node) bool {
		if a, ok := n.(*ast.AssignStmt); ok {
			for _, l := range a.Lhs {
				if id, ok := l.(*ast.Ident); ok && (info.Uses[id] == o || info.Defs[id] == o) {
					found = true
				}
			}
		}
		return true
	})
	return found
}

// checkAlphabetConsts emits one obligation per use of an alphabet-specific
// object in the named functions (nil = every function of the package).
func (c *Ctx) checkAlphabetConsts(rule string, funcs map[string]bool) int {
	L := c.L
	pk := c.P.Pkg("align")
	if pk == nil {
		L.Unknown("anchor", "align", "package resolves", "-", "package align not found")
		return 0
	}
	n := 0
	for _, s := range alphabetSites(pk) {
		if funcs != nil && !funcs[s.Func] && s.Func != "(package-level table)" {
			continue
		}
		n++
		want := alphaObjClass[s.Obj]
		fn := "align." + s.Func
		name := fmt.Sprintf("%s under {%s}", s.Obj, s.How)
		pos := c.P.Pos(s.Pos)
		switch s.Implied {
		case want:
			L.OK(rule, fn, name, pos, fmt.Sprintf("controlling comparisons select the %s alphabet; %s is its constant", want, s.Obj))
		case "amino", "nucl":
			L.Bad(rule, fn, name, pos, fmt.Sprintf("%s (the %s constant) is selected where the controlling comparisons {%s} select the %s alphabet", s.Obj, want, s.How, s.Implied))
		case "neither":
			L.Bad(rule, fn, name, pos, fmt.Sprintf("%s is used on a path where the alphabet is neither amino acids nor nucleotides {%s}", s.Obj, s.How))
		case "conflict", "mixed":
			L.Unknown(rule, fn, name, pos, "contradictory or mixed alphabet comparisons control this use: "+s.How)
		default:
			L.Unknown(rule, fn, name, pos, "an alphabet-specific constant is used without a controlling alphabet comparison; cannot decide which alphabet it serves")
		}
	}
	return n
}
