package rules

import (
	"go/token"
	"go/types"

	"golang.org/x/tools/go/ssa"
)

// tabulatedFunc: v is the value of (or a pointer held by) a package-level variable that the package
// initialiser sets, once, to a table `T[k] = f(k)` for every k of the full byte domain [0,256), built
// by an unexported constructor of the package that receives f as a function argument (or calls it
// directly), and that no code of the module writes afterwards. Indexing such a table with a byte is
// applying f to it. Returns f.
func (c *Ctx) tabulatedFunc(v ssa.Value) *ssa.Function {
	// the global: `*G` (pointer or array valued global) or G itself for an array global indexed in place
	var g *ssa.Global
	switch x := v.(type) {
	case *ssa.Global:
		g = x
	case *ssa.UnOp:
		if x.Op == token.MUL {
			g, _ = x.X.(*ssa.Global)
		}
	}
	if g == nil || g.Pkg == nil {
		return nil
	}
	arr := tableArrayType(g.Type().(*types.Pointer).Elem())
	if arr == nil || arr.Len() != 256 {
		return nil
	}
	iv := c.globalInitValue(g)
	if iv == nil {
		return nil
	}
	call, ok := iv.(*ssa.Call)
	if !ok {
		return nil
	}
	bld := call.Common().StaticCallee()
	if bld == nil || bld.Pkg != g.Pkg || len(bld.Blocks) == 0 || token.IsExported(bld.Name()) {
		return nil
	}
	// the constructor: one local array, returned; one store into it, at the loop counter of a loop
	// over [0, 256), of conv(f(conv(counter)))
	var local *ssa.Alloc
	for _, b := range bld.Blocks {
		ret, ok := b.Instrs[len(b.Instrs)-1].(*ssa.Return)
		if !ok {
			continue
		}
		if len(ret.Results) != 1 {
			return nil
		}
		r := ret.Results[0]
		if u, ok := r.(*ssa.UnOp); ok && u.Op == token.MUL {
			r = u.X
		}
		a, ok := r.(*ssa.Alloc)
		if !ok || (local != nil && local != a) {
			return nil
		}
		local = a
	}
	if local == nil || tableArrayType(local.Type().(*types.Pointer).Elem()) == nil {
		return nil
	}
	var fill *ssa.Store
	bad := false
	allInstrs(bld, func(in ssa.Instruction) {
		st, ok := in.(*ssa.Store)
		if !ok {
			return
		}
		ia, ok := st.Addr.(*ssa.IndexAddr)
		if !ok || ia.X != ssa.Value(local) {
			if st.Addr == ssa.Value(local) {
				bad = true // whole-array overwrite
			}
			return
		}
		if fill != nil {
			bad = true
		}
		fill = st
	})
	if bad || fill == nil {
		return nil
	}
	// the address of the local escapes only through the return
	for _, ref := range *local.Referrers() {
		switch x := ref.(type) {
		case *ssa.IndexAddr, *ssa.Return, *ssa.DebugRef:
		case *ssa.UnOp:
			if x.Op != token.MUL {
				return nil
			}
		default:
			return nil
		}
	}
	idx := fill.Addr.(*ssa.IndexAddr).Index
	phi, ok := stripConv(idx).(*ssa.Phi)
	if !ok || len(phi.Edges) != 2 {
		return nil
	}
	okInit, okStep := false, false
	for _, e := range phi.Edges {
		if k, ok := constInt(e); ok && k == 0 {
			okInit = true
		} else if bo, ok := e.(*ssa.BinOp); ok && bo.Op == token.ADD && bo.X == ssa.Value(phi) {
			if one, ok := constInt(bo.Y); ok && one == 1 {
				okStep = true
			}
		}
	}
	// loop test `counter < 256` (or a range over the array: counter < len = 256) decides the exit of the header
	okBound := false
	hb := phi.Block()
	for _, b := range append([]*ssa.BasicBlock{hb}, hb.Succs...) {
		ifi, ok := b.Instrs[len(b.Instrs)-1].(*ssa.If)
		if !ok {
			continue
		}
		bo, ok := ifi.Cond.(*ssa.BinOp)
		if !ok || bo.Op != token.LSS || stripConv(bo.X) != ssa.Value(phi) {
			continue
		}
		if k, ok := constInt(bo.Y); ok && k == 256 && b.Succs[0].Dominates(fill.Block()) {
			okBound = true
		}
	}
	if !okInit || !okStep || !okBound {
		return nil
	}
	// the counter must be wide enough to leave the loop: a uint8 counter never reaches 256
	if b, ok := phi.Type().Underlying().(*types.Basic); !ok || b.Kind() == types.Uint8 || b.Kind() == types.Int8 {
		return nil
	}
	fc, ok := stripConv(fill.Val).(*ssa.Call)
	if !ok || len(fc.Common().Args) != 1 || stripConv(fc.Common().Args[0]) != ssa.Value(phi) {
		return nil
	}
	var f *ssa.Function
	switch cv := fc.Common().Value.(type) {
	case *ssa.Function:
		f = cv
	case *ssa.Parameter:
		for i, p := range bld.Params {
			if p == cv && i < len(call.Common().Args) {
				f, _ = call.Common().Args[i].(*ssa.Function)
			}
		}
	}
	if f == nil {
		return nil
	}
	// written nowhere else: no store through an element address of this array type outside the constructor
	elemT := g.Type().(*types.Pointer).Elem()
	if p, ok := elemT.Underlying().(*types.Pointer); ok {
		elemT = p.Elem()
	}
	written := false
	for _, fn := range c.P.SrcFuncs() {
		for _, h := range withAnons(fn) {
			if h == bld {
				continue
			}
			allInstrs(h, func(in ssa.Instruction) {
				st, ok := in.(*ssa.Store)
				if !ok {
					return
				}
				base := st.Addr
				if ia, ok := base.(*ssa.IndexAddr); ok {
					base = ia.X
				}
				if p, ok := base.Type().Underlying().(*types.Pointer); ok && types.Identical(p.Elem(), elemT) {
					written = true
				}
			})
		}
	}
	if written {
		return nil
	}
	return f
}

func tableArrayType(t types.Type) *types.Array {
	if p, ok := t.Underlying().(*types.Pointer); ok {
		t = p.Elem()
	}
	a, _ := t.Underlying().(*types.Array)
	return a
}

// globalInitValue: the value the package initialiser stores in g, when that is the only store to g
// in the module (the variable is set once, before any function of the package runs).
func (c *Ctx) globalInitValue(g *ssa.Global) ssa.Value {
	if g == nil || g.Pkg == nil {
		return nil
	}
	initFn := g.Pkg.Func("init")
	if initFn == nil {
		return nil
	}
	var sets []*ssa.Store
	escapes := false
	count := func(f *ssa.Function) {
		allInstrs(f, func(in ssa.Instruction) {
			if st, ok := in.(*ssa.Store); ok && st.Addr == ssa.Value(g) {
				sets = append(sets, st)
				return
			}
			// the address of g used other than to load it: it may be written through an alias
			var rands []*ssa.Value
			for _, p := range in.Operands(rands) {
				if *p == ssa.Value(g) {
					if u, ok := in.(*ssa.UnOp); ok && u.Op == token.MUL {
						continue
					}
					if _, ok := in.(*ssa.IndexAddr); ok {
						continue
					}
					if _, ok := in.(*ssa.DebugRef); ok {
						continue
					}
					escapes = true
				}
			}
		})
	}
	count(initFn)
	nInit := len(sets)
	for _, f := range c.P.SrcFuncs() {
		for _, h := range withAnons(f) {
			count(h)
		}
	}
	if nInit != 1 || len(sets) != 1 || escapes {
		return nil
	}
	return sets[0].Val
}

// replacerPairs: v is the value of a package-level *strings.Replacer set once by the package
// initialiser to strings.NewReplacer(old1, new1, ...) with constant arguments; returns them.
func (c *Ctx) replacerPairs(v ssa.Value) ([]string, bool) {
	u, ok := v.(*ssa.UnOp)
	if !ok || u.Op != token.MUL {
		return nil, false
	}
	g, ok := u.X.(*ssa.Global)
	if !ok {
		return nil, false
	}
	call, ok := c.globalInitValue(g).(*ssa.Call)
	if !ok || !isPkgFunc(call.Common(), "strings", "NewReplacer") || len(call.Common().Args) != 1 {
		return nil, false
	}
	sl, ok := call.Common().Args[0].(*ssa.Slice)
	if !ok || sl.Low != nil || sl.High != nil {
		return nil, false
	}
	al, ok := sl.X.(*ssa.Alloc)
	if !ok {
		return nil, false
	}
	arr := tableArrayType(al.Type())
	if arr == nil {
		return nil, false
	}
	out := make([]string, arr.Len())
	set := make([]bool, arr.Len())
	for _, ref := range *al.Referrers() {
		switch x := ref.(type) {
		case *ssa.Slice, *ssa.DebugRef:
		case *ssa.IndexAddr:
			k, ok := constInt(x.Index)
			if !ok || k < 0 || k >= arr.Len() || set[k] {
				return nil, false
			}
			for _, r2 := range *x.Referrers() {
				st, ok := r2.(*ssa.Store)
				if !ok {
					return nil, false
				}
				sv, ok := cStr(constOf(st.Val))
				if !ok {
					return nil, false
				}
				out[k], set[k] = sv, true
			}
		default:
			return nil, false
		}
	}
	for _, b := range set {
		if !b {
			return nil, false
		}
	}
	return out, true
}

// globalStringMapKeys: the constant string keys of a package-level map that the package initialiser
// builds from a literal and that no function of the module updates or deletes from.
func (c *Ctx) globalStringMapKeys(g *ssa.Global) []string {
	mk, ok := c.globalInitValue(g).(*ssa.MakeMap)
	if !ok {
		return nil
	}
	var keys []string
	for _, ref := range *mk.Referrers() {
		switch x := ref.(type) {
		case *ssa.MapUpdate:
			k, ok := cStr(constOf(x.Key))
			if !ok {
				return nil
			}
			keys = append(keys, k)
		case *ssa.Store, *ssa.DebugRef:
		default:
			return nil
		}
	}
	// no update through a load of the global anywhere in the module
	mutated := false
	for _, fn := range c.P.SrcFuncs() {
		for _, h := range withAnons(fn) {
			allInstrs(h, func(in ssa.Instruction) {
				var m ssa.Value
				switch x := in.(type) {
				case *ssa.MapUpdate:
					m = x.Map
				case *ssa.Call:
					if n := builtinName(x.Common()); n == "delete" || n == "clear" {
						m = x.Common().Args[0]
					}
				}
				if u, ok := m.(*ssa.UnOp); ok && u.Op == token.MUL && u.X == ssa.Value(g) {
					mutated = true
				}
			})
		}
	}
	if mutated {
		return nil
	}
	return keys
}

// globalTableFlagOrder: g is a package-level slice of records built once by the initialiser from a
// literal; returns, in the order of the literal, the names of the package-level variables whose
// address is stored in the records (a table `{&rootphylip, ".ph"}, {&rootnexus, ".nx"}, …`).
func (c *Ctx) globalTableFlagOrder(g *ssa.Global) []string {
	sl, ok := c.globalInitValue(g).(*ssa.Slice)
	if !ok {
		return nil
	}
	al, ok := sl.X.(*ssa.Alloc)
	if !ok {
		return nil
	}
	byIdx := map[int64]string{}
	for _, ref := range *al.Referrers() {
		ia, ok := ref.(*ssa.IndexAddr)
		if !ok {
			continue
		}
		k, ok := constInt(ia.Index)
		if !ok {
			return nil
		}
		for _, r2 := range *ia.Referrers() {
			fa, ok := r2.(*ssa.FieldAddr)
			if !ok {
				continue
			}
			for _, r3 := range *fa.Referrers() {
				if st, ok := r3.(*ssa.Store); ok {
					if gl, ok := st.Val.(*ssa.Global); ok {
						byIdx[k] = gl.Name()
					}
				}
			}
		}
	}
	var out []string
	for k := int64(0); k < int64(len(byIdx)); k++ {
		n, ok := byIdx[k]
		if !ok {
			return nil
		}
		out = append(out, n)
	}
	return out
}
