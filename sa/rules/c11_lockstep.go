package rules

import (
	"fmt"
	"go/constant"
	"go/token"
	"sort"
	"strings"

	"golang.org/x/tools/go/ssa"
)

// checkRngLockstep: `build seqboot --seed S` followed by `compute distance` gives the matrices of
// `build distboot --seed S` only if both commands take the same draws from the global random
// stream between two replicates. Every call of the two replicate loops that reaches a top-level
// math/rand function is listed with the options that switch it off by default (a dominating branch on a boolean option of package
// cmd taken the other way when the option has its default value: the default of its flag, or its
// initial value when nothing assigns it); the draws made with every option at its default must be
// the same in both commands.
func (c *Ctx) checkRngLockstep(rule string) {
	L := c.L
	L.Rule(rule, "the calls that draw from the global random stream in the replicate loops of `build seqboot` and `build distboot`, with every boolean option at its default, are the same callees: what an option adds (the row shuffle of -S) is selected by a branch on that option")
	cg := c.CallGraph(c.P)
	defaults := c.flagBoolDefaults()
	type cons struct {
		callee string
		opt    string // "" = unconditional
		pos    string
	}
	guardOf := func(in ssa.Instruction) string {
		// the options that select this call: dominating branches on package-level booleans of cmd
		// (flag-bound: default of the flag; never assigned outside init: its initial value)
		opt := ""
		for d := in.Block(); d != nil; d = d.Idom() {
			id := d.Idom()
			if id == nil || len(id.Instrs) == 0 {
				continue
			}
			ifi, ok := id.Instrs[len(id.Instrs)-1].(*ssa.If)
			if !ok || !(len(d.Preds) == 1 && (id.Succs[0] == d || id.Succs[1] == d)) {
				continue
			}
			onTrue := id.Succs[0] == d
			cv := ifi.Cond
			for {
				u, ok := cv.(*ssa.UnOp)
				if !ok {
					break
				}
				if u.Op == token.NOT {
					onTrue = !onTrue
					cv = u.X
					continue
				}
				if g, ok := u.X.(*ssa.Global); ok && u.Op == token.MUL {
					def, known := defaults[g]
					if !known {
				if iv := c.globalInitValue(g); iv != nil {
					if k, ok := iv.(*ssa.Const); ok && k.Value != nil && k.Value.Kind() == constant.Bool {
						def, known = constant.BoolVal(k.Value), true
					}
				}
					}
					if known && def != onTrue {
				if opt != "" {
					opt += ", "
				}
				if onTrue {
					opt += g.Name()
				} else {
					opt += "!" + g.Name()
				}
					}
				}
				break
			}
		}
		return opt
	}
	drawsOf := func(varName string) ([]cons, *ssa.Function) {
		var root *ssa.Function
		for _, fn := range c.P.SrcFuncs("cmd") {
			if c.P.FuncName(fn) == "cmd.var "+varName+"$1" {
				root = fn
			}
		}
		if root == nil {
			return nil, nil
		}
		var out []cons
		seenFn := map[*ssa.Function]bool{}
		var scan func(fn0 *ssa.Function, outerOpt string, depth int)
		scan = func(fn0 *ssa.Function, outerOpt string, depth int) {
			if seenFn[fn0] || depth > 4 {
				return
			}
			seenFn[fn0] = true
			for _, f := range withAnons(fn0) {
				allInstrs(f, func(in ssa.Instruction) {
					ci, ok := in.(ssa.CallInstruction)
					if !ok {
						return
					}
					if _, isGo := in.(*ssa.Go); isGo {
						return
					}
					opt := outerOpt
					if o := guardOf(in); o != "" {
						if opt != "" {
							opt += ", "
						}
						opt += o
					}
					for _, g := range cg.Callees(ci) {
						if g == nil {
							continue
						}
						if isGlobalRandDraw(g) {
							out = append(out, cons{"rand." + g.Name(), opt, c.P.Pos(in.Pos())})
							return
						}
						if !c.P.InModule(g) {
							continue
						}
						reaches := false
						for h := range cg.Reachable(g, c.P.InModule) {
							if isGlobalRandDraw(h) {
								reaches = true
							}
						}
						if !reaches {
							continue
						}
						// a helper of package cmd is read through: the draws are those of its body
						top := g
						for top.Parent() != nil {
							top = top.Parent()
						}
						if top.Pkg != nil && relPkg(c.P, top.Pkg.Pkg.Path()) == "cmd" {
							scan(g, opt, depth+1)
							return
						}
						out = append(out, cons{g.Name(), opt, c.P.Pos(in.Pos())})
						return
					}
				})
			}
		}
		scan(root, "", 0)
		return out, root
	}
	sb, f1 := drawsOf("seqbootCmd")
	db, f2 := drawsOf("distbootCmd")
	if f1 == nil || f2 == nil {
		L.Unknown(rule, "cmd", "replicate loops", "-", "the RunE closures of seqbootCmd and distbootCmd were not found")
		return
	}
	set := func(cs []cons, cond bool) []string {
		m := map[string]bool{}
		for _, x := range cs {
			if (x.opt != "") == cond {
				m[x.callee] = true
			}
		}
		var out []string
		for k := range m {
			out = append(out, k)
		}
		sort.Strings(out)
		return out
	}
	u1, u2 := set(sb, false), set(db, false)
	if len(u1) == 0 || len(u2) == 0 {
		L.Unknown(rule, c.P.FuncName(f1), "draws between replicates", c.P.Pos(f1.Pos()), fmt.Sprintf("no unconditional draw found in one of the replicate loops (seqboot %v, distboot %v)", u1, u2))
		return
	}
	descr := func(cs []cons) string {
		var w []string
		for _, x := range cs {
			s := x.callee
			if x.opt != "" {
				s += " under " + x.opt
			}
			w = append(w, s+" at "+x.pos)
		}
		return strings.Join(w, ", ")
	}
	if strings.Join(u1, ",") == strings.Join(u2, ",") {
		L.OK(rule, c.P.FuncName(f1), "draws between replicates", c.P.Pos(f1.Pos()), fmt.Sprintf("unconditional draws of both commands: %v; option-selected draws of seqboot: %v", u1, set(sb, true)))
	} else {
		L.Bad(rule, c.P.FuncName(f1), "draws between replicates", c.P.Pos(f1.Pos()), fmt.Sprintf("seqboot draws {%s} from the global stream for every replicate, distboot {%s}: with the same seed the two commands read the stream at different offsets from the second replicate on", descr(sb), descr(db)))
	}
	L.Floor(rule, 1, "one pair of commands")
}


// flagBoolDefaults: the default value of every boolean option bound with pflag's BoolVar/BoolVarP in an init function of package cmd.
func (c *Ctx) flagBoolDefaults() map[*ssa.Global]bool {
	out := map[*ssa.Global]bool{}
	for _, fn := range c.P.SrcFuncs("cmd") {
		top := fn
		for top.Parent() != nil {
			top = top.Parent()
		}
		if top.Name() != "init" && !strings.HasPrefix(top.Name(), "init#") {
			continue
		}
		allInstrs(fn, func(in ssa.Instruction) {
			ci, ok := in.(ssa.CallInstruction)
			if !ok {
				return
			}
			cc := ci.Common()
			callee := cc.StaticCallee()
			if callee == nil || callee.Pkg == nil || !strings.HasSuffix(callee.Pkg.Pkg.Path(), "spf13/pflag") || !strings.HasPrefix(callee.Name(), "BoolVar") {
				return
			}
			var g *ssa.Global
			var def *bool
			for _, a := range cc.Args {
				if gg, ok := a.(*ssa.Global); ok {
					g = gg
				}
				if k, ok := a.(*ssa.Const); ok && k.Value != nil && k.Value.Kind() == constant.Bool {
					b := constant.BoolVal(k.Value)
					def = &b
				}
			}
			if g != nil && def != nil {
				out[g] = *def
			}
		})
	}
	return out
}
