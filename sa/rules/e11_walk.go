package rules

import (
	"go/constant"
	"go/token"

	"golang.org/x/tools/go/ssa"
)

// Decision tables of a branch cascade inside a larger function. A few values of the function
// (a residue read from a row, a flag parameter, the detected alphabets) are given constants; the
// walk then propagates constants from a start block through φ-nodes, comparisons, boolean
// operators and conversions, follows every branch whose condition became a constant, and stops
// at the first block the caller recognises (the counting block, the loop header, the return).
// A branch on anything else than the chosen values makes the table undecided for that row. The
// rule compares the block (or the value selected there) with the definition, row by row.

type dval struct {
	known bool
	k     int64
	ref   ssa.Value // identity of a value that is not a constant (a loaded table, nil)
}

type walkResult struct {
	at  *ssa.BasicBlock
	env map[ssa.Value]dval
}

func constDval(v ssa.Value) (dval, bool) {
	k, ok := v.(*ssa.Const)
	if !ok {
		return dval{}, false
	}
	if k.Value == nil {
		return dval{ref: v}, true
	}
	switch k.Value.Kind() {
	case constant.Bool:
		if constant.BoolVal(k.Value) {
			return dval{known: true, k: 1}, true
		}
		return dval{known: true, k: 0}, true
	case constant.Int:
		if i, ok := constant.Int64Val(k.Value); ok {
			return dval{known: true, k: i}, true
		}
	}
	return dval{ref: v}, true
}

func walkDecide(from *ssa.BasicBlock, env map[ssa.Value]dval, stop func(b *ssa.BasicBlock) bool) (walkResult, bool) {
	val := func(v ssa.Value) dval {
		if d, ok := constDval(v); ok {
			return d
		}
		if d, ok := env[v]; ok {
			return d
		}
		return dval{ref: v}
	}
	b2i := func(b bool) int64 {
		if b {
			return 1
		}
		return 0
	}
	var prev *ssa.BasicBlock
	cur := from
	for steps := 0; steps < 400; steps++ {
		if prev != nil {
			upd := map[ssa.Value]dval{}
			for _, in := range cur.Instrs {
				p, ok := in.(*ssa.Phi)
				if !ok {
					break
				}
				for i, pr := range cur.Preds {
					if pr == prev && i < len(p.Edges) {
						upd[p] = val(p.Edges[i])
					}
				}
			}
			for k, v := range upd {
				env[k] = v
			}
		}
		if cur != from && stop(cur) {
			return walkResult{cur, env}, true
		}
		var next *ssa.BasicBlock
		for _, in := range cur.Instrs {
			switch x := in.(type) {
			case *ssa.BinOp:
				if _, preset := env[x]; preset {
					continue
				}
				a, b := val(x.X), val(x.Y)
				if !a.known || !b.known {
					continue
				}
				var r int64
				okOp := true
				switch x.Op {
				case token.EQL:
					r = b2i(a.k == b.k)
				case token.NEQ:
					r = b2i(a.k != b.k)
				case token.LSS:
					r = b2i(a.k < b.k)
				case token.LEQ:
					r = b2i(a.k <= b.k)
				case token.GTR:
					r = b2i(a.k > b.k)
				case token.GEQ:
					r = b2i(a.k >= b.k)
				case token.AND:
					r = a.k & b.k
				case token.OR:
					r = a.k | b.k
				case token.XOR:
					r = a.k ^ b.k
				case token.ADD:
					r = a.k + b.k
				case token.SUB:
					r = a.k - b.k
				default:
					okOp = false
				}
				if okOp {
					env[x] = dval{known: true, k: wrapInt(x.Type(), r)}
				}
			case *ssa.UnOp:
				if _, preset := env[x]; preset {
					continue
				}
				a := val(x.X)
				if a.known && x.Op == token.NOT {
					env[x] = dval{known: true, k: 1 - a.k}
				}
			case *ssa.Convert:
				if _, preset := env[x]; preset {
					continue
				}
				if a := val(x.X); a.known && isSmallScalar(x.Type()) {
					env[x] = dval{known: true, k: wrapInt(x.Type(), a.k)}
				}
			case *ssa.ChangeType:
				if a := val(x.X); a.known {
					env[x] = a
				}
			case *ssa.If:
				c := val(x.Cond)
				if !c.known {
					return walkResult{cur, env}, false
				}
				if c.k != 0 {
					next = cur.Succs[0]
				} else {
					next = cur.Succs[1]
				}
			case *ssa.Jump:
				next = cur.Succs[0]
			}
		}
		if next == nil {
			return walkResult{cur, env}, true // a return (or panic) block
		}
		prev, cur = cur, next
	}
	return walkResult{cur, env}, false
}
