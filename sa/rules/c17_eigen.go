package rules

import (
	"fmt"
	"go/token"
	"strings"

	"golang.org/x/tools/go/ssa"
)

// checkEigenTerms: P(l) of an empirical protein model is R·diag(t_i)·L with t_i = exp(λ_i l), or
// (α/(α − λ_i l))^α under the gamma correction. In pMatEmpirical every store into the vector of
// these terms is one of the two closed forms, read symbolically (uninterpreted exp/pow atoms):
// a term overwritten afterwards (small terms "flushed" to zero) is a different matrix — harmless
// for exp(), wrong for the power form whose terms are not small.
func (c *Ctx) checkEigenTerms(rule string) {
	L := c.L
	L.Rule(rule, "in pMatEmpirical every value stored into the vector of eigen terms is exp(λ_i·l) or pow(α/(α − λ_i·l), α), as a symbolic identity over the eigenvalue read at the same index, the branch length and the model's alpha; nothing else is stored into that vector")
	r := c.fn("distance/protein", "*ProtDistModel", "pMatEmpirical")
	if !r.ok() {
		return
	}
	fn := r.F
	// the vector: the table multiplied into the right eigenvectors — here: every local float slice
	// that receives a math.Exp or math.Pow value
	tables := map[ssa.Value]bool{}
	isExpOrPow := func(v ssa.Value) bool {
		for {
			if cv, ok := v.(*ssa.Convert); ok {
				v = cv.X
				continue
			}
			break
		}
		call, ok := v.(*ssa.Call)
		return ok && (isPkgFunc(call.Common(), "math", "Exp") || isPkgFunc(call.Common(), "math", "Pow"))
	}
	type st struct {
		s  *ssa.Store
		ia *ssa.IndexAddr
	}
	var stores []st
	for _, f := range withAnons(fn) {
		allInstrs(f, func(in ssa.Instruction) {
			s, ok := in.(*ssa.Store)
			if !ok {
				return
			}
			ia, ok := s.Addr.(*ssa.IndexAddr)
			if !ok {
				return
			}
			stores = append(stores, st{s, ia})
			if isExpOrPow(s.Val) {
				tables[ia.X] = true
			}
		})
	}
	if len(tables) == 0 {
		L.Unknown(rule, r.label, "eigen terms", c.P.Pos(fn.Pos()), "no slice receives a math.Exp / math.Pow value")
		return
	}
	n := 0
	var bad []string
	for _, x := range stores {
		inTable := false
		for t := range tables {
			if sameTable(t, x.ia.X) {
				inTable = true
			}
		}
		if !inTable {
			continue
		}
		n++
		sc := &symCtx{}
		sc.leaf = func(v ssa.Value) (frac, bool) {
			switch y := v.(type) {
			case *ssa.Parameter:
				if len(fn.Params) > 1 && y == fn.Params[1] {
					return fracSym("l"), true
				}
			case *ssa.Call:
				if y.Common().IsInvoke() && y.Common().Method.Name() == "Alpha" {
					return fracSym("alpha"), true
				}
				if g := y.Common().StaticCallee(); g != nil && g.Name() == "Alpha" && g.Signature.Recv() != nil {
					return fracSym("alpha"), true
				}
			case *ssa.UnOp:
				if y.Op == token.MUL {
					if ia, ok := y.X.(*ssa.IndexAddr); ok && ia.Index == x.ia.Index {
						return fracSym("lambda"), true
					}
				}
			}
			return frac{}, false
		}
		got, ok := sc.symOf(x.s.Val, func(p *ssa.Phi) ssa.Value { return nil }, 0)
		if !ok {
			bad = append(bad, c.P.Pos(x.s.Pos())+" (not a closed form of λ, l and α)")
			continue
		}
		lam, l, al := fracSym("lambda"), fracSym("l"), fracSym("alpha")
		plain := sc.apply("exp", lam.mul(l))
		gam := sc.apply("pow", al.div(al.sub(lam.mul(l))), al)
		if !got.eq(plain) && !got.eq(gam) {
			bad = append(bad, c.P.Pos(x.s.Pos()))
		}
	}
	L.Check(len(bad) == 0, rule, r.label, "eigen terms", c.P.Pos(fn.Pos()),
		fmt.Sprintf("%d store(s) into the vector of eigen terms, each exp(λ·l) or pow(α/(α−λ·l), α)", n),
		"a value that is neither exp(λ_i·l) nor pow(α/(α−λ_i·l), α) is stored into the vector of eigen terms at "+strings.Join(bad, ", ")+": P(l) is no longer R·diag(t)·L")
	L.Floor(rule, 1, "one function")
}
