package rules

import (
	"fmt"
	"math/bits"
	"strings"
)

// checkMutationClasses: the predicates that classify a pair of nucleotide codes (bit sets over
// A=1, C=2, G=4, T=8) are tabulated over the whole code domain and compared with their
// definitions: a transition is A<->G or C<->T between unambiguous bases, a transversion is a
// non-empty set of purines facing a non-empty set of pyrimidines (either way round), a
// nucleotide is any non-empty code, an ambiguous one has more than one base.
func (c *Ctx) checkMutationClasses(rule string) {
	L := c.L
	L.Rule(rule, "decision tables of the code predicates of package distance/dna, folded from their SSA form over all 16 (16x16) IUPAC bit-set codes, equal the definitions: isTransition = {A,G} or {C,T}; isAG = {A,G}; isCT = {C,T}; isTransversion = non-empty subset of {A,G} against non-empty subset of {C,T}; isNuc = non-empty code; isNucStrict = one base; isAmbiguous = more than one base")
	const A, C, G, T = 1, 2, 4, 8
	const R, Y = A | G, C | T
	pair := func(a, b, x, y int64) bool { return (a == x && b == y) || (a == y && b == x) }
	sub := func(a, set int64) bool { return a != 0 && a|set == set }
	binary := map[string]func(a, b int64) bool{
		"isTransition":   func(a, b int64) bool { return pair(a, b, A, G) || pair(a, b, C, T) },
		"isAG":           func(a, b int64) bool { return pair(a, b, A, G) },
		"isCT":           func(a, b int64) bool { return pair(a, b, C, T) },
		"isTransversion": func(a, b int64) bool { return (sub(a, R) && sub(b, Y)) || (sub(a, Y) && sub(b, R)) },
	}
	unary := map[string]func(a int64) bool{
		"isNuc":       func(a int64) bool { return a >= 1 && a <= 15 },
		"isNucStrict": func(a int64) bool { return bits.OnesCount8(uint8(a)) == 1 },
		"isAmbiguous": func(a int64) bool { return bits.OnesCount8(uint8(a)) > 1 },
	}
	code := func(v int64) string {
		if v == 0 {
			return "-"
		}
		s := ""
		for i, ch := range "ACGT" {
			if v&(1<<uint(i)) != 0 {
				s += string(ch)
			}
		}
		return "{" + s + "}"
	}
	for _, name := range []string{"isTransition", "isAG", "isCT", "isTransversion"} {
		r := c.fn("distance/dna", "", name)
		if !r.ok() {
			continue
		}
		var diffs []string
		decided := true
		for a := int64(0); a < 16 && decided; a++ {
			for b := int64(0); b < 16; b++ {
				got, ok := foldPure(r.F, []int64{a, b}, 0, &foldBudget{})
				if !ok {
					decided = false
					break
				}
				if (got != 0) != binary[name](a, b) {
					diffs = append(diffs, fmt.Sprintf("%s(%s,%s)=%v", name, code(a), code(b), got != 0))
				}
			}
		}
		switch {
		case !decided:
			L.Trivial(rule, r.label, "table over 16x16 codes", c.P.Pos(r.F.Pos()), "the function is not a pure predicate over its two codes (memory access, unknown callee): its table cannot be folded, nothing is decided by this rule")
		case len(diffs) == 0:
			L.OK(rule, r.label, "table over 16x16 codes", c.P.Pos(r.F.Pos()), "256 entries equal the definition")
		default:
			more := ""
			if len(diffs) > 6 {
				more = fmt.Sprintf(" … (%d entries differ)", len(diffs))
				diffs = diffs[:6]
			}
			L.Bad(rule, r.label, "table over 16x16 codes", c.P.Pos(r.F.Pos()), "the predicate differs from its definition: "+strings.Join(diffs, ", ")+more)
		}
	}
	for _, name := range []string{"isNuc", "isNucStrict", "isAmbiguous"} {
		// helpers, not anchors: judged where they exist
		if f := c.P.Func("distance/dna", "", name); f == nil || f.Blocks == nil {
			continue
		}
		r := c.fn("distance/dna", "", name)
		if !r.ok() {
			continue
		}
		var diffs []string
		decided := true
		for a := int64(0); a < 16; a++ {
			got, ok := foldPure(r.F, []int64{a}, 0, &foldBudget{})
			if !ok {
				decided = false
				break
			}
			if (got != 0) != unary[name](a) {
				diffs = append(diffs, fmt.Sprintf("%s(%s)=%v", name, code(a), got != 0))
			}
		}
		switch {
		case !decided:
			L.Trivial(rule, r.label, "table over 16 codes", c.P.Pos(r.F.Pos()), "the function is not a pure predicate over its code: its table cannot be folded, nothing is decided by this rule")
		case len(diffs) == 0:
			L.OK(rule, r.label, "table over 16 codes", c.P.Pos(r.F.Pos()), "16 entries equal the definition")
		default:
			L.Bad(rule, r.label, "table over 16 codes", c.P.Pos(r.F.Pos()), "the predicate differs from its definition: "+strings.Join(diffs, ", "))
		}
	}
	L.Floor(rule, 4, "seven predicates on the pinned tree")
}
