package rules

import (
	"fmt"
	"math/bits"
	"strings"
)

// checkMutationClasses: the predicates that classify a pair of nucleotide codes (bit sets over
// A=1, C=2, G=4, T=8) are tabulated over the whole code domain and compared with their
// definitions: a transition is A<->G or C<->T between unambiguous bases, a transversion is a
// non-empty set of purines facing a non-empty set of pyrimidines (either way round), a
// nucleotide is any non-empty code, an ambiguous one has more than one base.
func (c *Ctx) checkMutationClasses(rule string) {
	L := c.L
	L.Rule(rule, "decision tables of the code predicates of package distance/dna, folded from their SSA form over all 16 (16x16) IUPAC bit-set codes, equal the definitions: isTransition = {A,G} or {C,T}; isAG = {A,G}; isCT = {C,T}; isTransversion = non-empty subset of {A,G} against non-empty subset of {C,T}; isNuc = non-empty code; isNucStrict = one base; isAmbiguous = more than one base")
	const A, C, G, T = 1, 2, 4, 8
	const R, Y = A | G, C | T
	pair := func(a, b, x, y int64) bool { return (a == x && b == y) || (a == y && b == x) }
	sub := func(a, set int64) bool { return a != 0 && a|set == set }
	binary := map[string]func(a, b int64) bool{
		"isTransition":   func(a, b int64) bool { return pair(a, b, A, G) || pair(a, b, C, T) },
		"isAG":           func(a, b int64) bool { return pair(a, b, A, G) },
		"isCT":           func(a, b int64) bool { return pair(a, b, C, T) },
		"isTransversion": func(a, b int64) bool { return (sub(a, R) && sub(b, Y)) || (sub(a, Y) && sub(b, R)) },
	}
	unary := map[string]func(a int64) bool{
		"isNuc":       func(a int64) bool { return a >= 1 && a <= 15 },
		"isNucStrict": func(a int64) bool { return bits.OnesCount8(uint8(a)) == 1 },
		"isAmbiguous": func(a int64) bool { return bits.OnesCount8(uint8(a)) > 1 },
	}
	code := func(v int64) string {
		if v == 0 {
			return "-"
		}
		s := ""
		for i, ch := range "ACGT" {
			if v&(1<<uint(i)) != 0 {
				s += string(ch)
			}
		}
		return "{" + s + "}"
	}
	for _, name := range []string{"isTransition", "isAG", "isCT", "isTransversion"} {
		r := c.fn("distance/dna", "", name)
		if !r.ok() {
			continue
		}
		var diffs []string
		decided := true
		for a := int64(0); a < 16 && decided; a++ {
			for b := int64(0); b < 16; b++ {
				got, ok := foldPure(r.F, []int64{a, b}, 0, &foldBudget{})
				if !ok {
					decided = false
					break
				}
				if (got != 0) != binary[name](a, b) {
					diffs = append(diffs, fmt.Sprintf("%s(%s,%s)=%v", name, code(a), code(b), got != 0))
				}
			}
		}
		switch {
		case !decided:
			L.Trivial(rule, r.label, "table over 16x16 codes", c.P.Pos(r.F.Pos()), "the function is not a pure predicate over its two codes (memory access, unknown callee): its table cannot be folded, nothing is decided by this rule")
		case len(diffs) == 0:
			L.OK(rule, r.label, "table over 16x16 codes", c.P.Pos(r.F.Pos()), "256 entries equal the definition")
		default:
			more := ""
			if len(diffs) > 6 {
				more = fmt.Sprintf(" … (%d entries differ)", len(diffs))
				diffs = diffs[:6]
			}
			L.Bad(rule, r.label, "table over 16x16 codes", c.P.Pos(r.F.Pos()), "the predicate differs from its definition: "+strings.Join(diffs, ", ")+more)
		}
	}
	for _, name := range []string{"isNuc", "isNucStrict", "isAmbiguous"} {
		// helpers, not anchors: judged where they exist
		if f := c.P.Func("distance/dna", "", name); f == nil || f.Blocks == nil {
			continue
		}
		r := c.fn("distance/dna", "", name)
		if !r.ok() {
			continue
		}
		var diffs []string
		decided := true
		for a := int64(0); a < 16; a++ {
			got, ok := foldPure(r.F, []int64{a}, 0, &foldBudget{})
			if !ok {
				decided = false
				break
			}
			if (got != 0) != unary[name](a) {
				diffs = append(diffs, fmt.Sprintf("%s(%s)=%v", name, code(a), got != 0))
			}
		}
		switch {
		case !decided:
			L.Trivial(rule, r.label, "table over 16 codes", c.P.Pos(r.F.Pos()), "the function is not a pure predicate over its code: its table cannot be folded, nothing is decided by this rule")
		case len(diffs) == 0:
			L.OK(rule, r.label, "table over 16 codes", c.P.Pos(r.F.Pos()), "16 entries equal the definition")
		default:
			L.Bad(rule, r.label, "table over 16 codes", c.P.Pos(r.F.Pos()), "the predicate differs from its definition: "+strings.Join(diffs, ", "))
		}
	}
	L.Floor(rule, 4, "seven predicates on the pinned tree")
}

// checkIupacPairTables: the two helpers of package align that compare a pair of IUPAC bit-set
// codes, tabulated over the 16x16 valid codes: EqualOrCompatible is true iff the codes are equal
// or share a base (two gaps are equal), with a nil error; NtIUPACDifference is 0 for equal codes
// and for codes that share a base, 1 otherwise (a gap against a base, two disjoint sets), with a
// nil error.
func (c *Ctx) checkIupacPairTables(rule string) {
	L := c.L
	L.Rule(rule, "decision tables of align.EqualOrCompatible and align.NtIUPACDifference over the 16x16 valid IUPAC bit-set codes, folded from their SSA form: compatible iff equal or sharing a base; difference 0 iff equal or sharing a base, else 1; no error for a valid code")
	type spec struct {
		name string
		want func(a, b int64) int64
	}
	specs := []spec{
		{"EqualOrCompatible", func(a, b int64) int64 {
			if a == b || a&b != 0 {
				return 1
			}
			return 0
		}},
		{"NtIUPACDifference", func(a, b int64) int64 {
			if a == b || a&b != 0 {
				return 0
			}
			return 1
		}},
	}
	for _, sp := range specs {
		r := c.fn("align", "", sp.name)
		if !r.ok() {
			continue
		}
		var diffs []string
		decided, n := 0, 0
		for a := int64(0); a < 16; a++ {
			for b := int64(0); b < 16; b++ {
				n++
				rs, ok := foldPureN(r.F, []int64{a, b}, 0, &foldBudget{})
				if !ok || len(rs) != 2 || !rs[0].known {
					continue
				}
				decided++
				if rs[0].k != sp.want(a, b) {
					diffs = append(diffs, fmt.Sprintf("%s(%d,%d)=%d", sp.name, a, b, rs[0].k))
				} else if !rs[1].isNil {
					diffs = append(diffs, fmt.Sprintf("%s(%d,%d) returns an error", sp.name, a, b))
				}
			}
		}
		what := "table over 16x16 codes"
		switch {
		case decided == 0:
			L.Trivial(rule, r.label, what, c.P.Pos(r.F.Pos()), "the function is not a pure function of its two codes: its table cannot be folded, nothing is decided by this rule")
		case len(diffs) > 0:
			more := ""
			if len(diffs) > 6 {
				more = fmt.Sprintf(" … (%d entries differ)", len(diffs))
				diffs = diffs[:6]
			}
			L.Bad(rule, r.label, what, c.P.Pos(r.F.Pos()), "the helper differs from its definition: "+strings.Join(diffs, ", ")+more)
		case decided < n:
			L.Unknown(rule, r.label, what, c.P.Pos(r.F.Pos()), fmt.Sprintf("only %d of %d entries could be folded", decided, n))
		default:
			L.OK(rule, r.label, what, c.P.Pos(r.F.Pos()), "256 entries equal the definition")
		}
	}
	L.Floor(rule, 1, "two helpers on the pinned tree")
}
