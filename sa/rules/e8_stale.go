package rules

import (
	"fmt"
	"strings"
	"go/token"
	"os"
	"sort"

	"golang.org/x/tools/go/ssa"
)

// Stale iteration state. A variable that lives across the iterations of a loop, is overwritten in
// some iterations only — under a condition that does not look at the variable itself — with a value
// that is not computed from it, and is read in the loop body, carries the value of an earlier
// iteration into a later one: the comparison key of row k used for row k+1, the window length of
// one alignment applied to the next. (A running maximum is overwritten under a condition on
// itself; a counter or an accumulator is computed from itself; a flag is overwritten with a
// constant; a "last index that matched" is only read after the loop: none of these is reported.)
type staleVar struct {
	fn   *ssa.Function
	phi  *ssa.Phi
	lp   *loop
	leaf ssa.Value // the overwriting value
}

func staleIterationState(fn *ssa.Function) []staleVar {
	var out []staleVar
	for _, f := range withAnons(fn) {
		for _, lp := range naturalLoops(f) {
			for _, in := range lp.Head.Instrs {
				p, ok := in.(*ssa.Phi)
				if !ok {
					break
				}
				if isErrorT(p.Type()) {
					continue // an error remembered until the loop tests it: a flag
				}
				// leaves of the in-loop edges, through the merge φ-nodes of the loop body
				unchanged := false
				var over []ssa.Value
				var merges []*ssa.Phi
				seen := map[ssa.Value]bool{}
				var rec func(v ssa.Value)
				rec = func(v ssa.Value) {
					if seen[v] {
						return
					}
					seen[v] = true
					if v == ssa.Value(p) {
						unchanged = true
						return
					}
					if q, ok := v.(*ssa.Phi); ok && lp.Blocks[q.Block()] && q.Block() != lp.Head {
						merges = append(merges, q)
						for _, e := range q.Edges {
							rec(e)
						}
						return
					}
					over = append(over, v)
				}
				for i, e := range p.Edges {
					if lp.Blocks[lp.Head.Preds[i]] {
						rec(e)
					}
				}
				if !unchanged || len(over) == 0 {
					continue
				}
				// read in the loop body by something other than the merges
				usedInLoop := false
				carriers := []ssa.Value{p}
				for _, q := range merges {
					if throughPhis(q, false)[p] {
						carriers = append(carriers, q)
					}
				}
				for _, cv := range carriers {
					for _, ref := range *cv.Referrers() {
						if _, isPhi := ref.(*ssa.Phi); isPhi {
							continue
						}
						if _, isDbg := ref.(*ssa.DebugRef); isDbg {
							continue
						}
						if lp.Blocks[ref.Block()] {
							usedInLoop = true
						}
					}
				}
				if !usedInLoop {
					continue
				}
				// the conditions that select between "unchanged" and "overwritten" do not look at p
				selfGuarded := false
				var starts []*ssa.BasicBlock
				// the tests that decide between "unchanged" and "overwritten": those above a merge
				// (or a back edge) that takes the variable itself as one of its inputs
				for _, q := range merges {
					for i, e := range q.Edges {
						if e == ssa.Value(p) {
							// the tests between the merge's dominator and the edge that leaves
							// the variable unchanged
							top := q.Block().Idom()
							for d := q.Block().Preds[i]; d != nil && lp.Blocks[d]; d = d.Idom() {
								starts = append(starts, d)
								if d == top {
									break
								}
							}
						}
					}
				}
				for i, e := range p.Edges {
					if lp.Blocks[lp.Head.Preds[i]] && e == ssa.Value(p) {
						for d := lp.Head.Preds[i]; d != nil && lp.Blocks[d] && d != lp.Head; d = d.Idom() {
							starts = append(starts, d)
						}
					}
				}
				for _, d := range starts {
					if d == lp.Head {
						continue
					}
					if ifi, ok := d.Instrs[len(d.Instrs)-1].(*ssa.If); ok && mentionsDeep(ifi.Cond, p) {
						selfGuarded = true
					}
				}
				if selfGuarded {
					continue
				}
				// conditions that cannot change during the loop select the same side in every
				// iteration: the variable is then overwritten always or never (`w := 1.0` before the
				// loop and `if weights != nil { w = weights[i] }` inside it)
				variant := false
				for _, d := range starts {
					if d == lp.Head {
						continue
					}
					if ifi, ok := d.Instrs[len(d.Instrs)-1].(*ssa.If); ok && !loopInvariant(ifi.Cond, lp, 0) {
						variant = true
					}
				}
				if !variant {
					continue
				}
				for _, w := range over {
					if _, isConst := w.(*ssa.Const); isConst {
						continue
					}
					if mentionsDeep(w, p) {
						continue
					}
					out = append(out, staleVar{f, p, lp, w})
					break
				}
			}
		}
	}
	return out
}

// mentionsDeep: v is computed from target through arithmetic, conversions, φ-nodes, calls' arguments,
// slicing or append.
func mentionsDeep(v, target ssa.Value) bool {
	seen := map[ssa.Value]bool{}
	var rec func(v ssa.Value, d int) bool
	rec = func(v ssa.Value, d int) bool {
		if v == target {
			return true
		}
		if v == nil || seen[v] || d > 12 {
			return false
		}
		seen[v] = true
		in, ok := v.(ssa.Instruction)
		if !ok {
			return false
		}
		if u, isU := v.(*ssa.UnOp); isU && u.Op == token.MUL {
			return rec(u.X, d+1)
		}
		var rands []*ssa.Value
		for _, p := range in.Operands(rands) {
			if *p != nil && rec(*p, d+1) {
				return true
			}
		}
		return false
	}
	return rec(v, 0)
}

func (c *Ctx) debugStale() {
	if os.Getenv("VERIF_DEBUG_STALE") == "" {
		return
	}
	var lines []string
	for _, fn := range c.P.SrcFuncs() {
		for _, sv := range staleIterationState(fn) {
			lines = append(lines, fmt.Sprintf("STALE %s: %s (%s) overwritten with %s at %s", c.P.FuncName(sv.fn), sv.phi.Comment, sv.phi.Name(), sv.leaf.Name(), c.P.Pos(sv.phi.Pos())))
		}
	}
	sort.Strings(lines)
	for _, l := range lines {
		fmt.Fprintln(os.Stderr, l)
	}
}

// staleAllowed: the state-machine variables of the pinned tree that have this shape by design,
// confirmed by reading; counted per function (names do not survive a rename, counts do).
var staleAllowed = map[string]struct {
	n   int
	why string
}{
	"align.(*align).Mask":           {1, "rep: the majority character, recomputed for every column in MAJ mode (some count is positive as soon as there is a row) and constant otherwise"},
	"align.(*align).MaskOccurences": {1, "rep: as in Mask"},
	"align.(*align).Frameshifts":    {1, "start of the current run of frameshifted columns: set when a run opens, read when it closes"},
	"align.(*seqbag).TrimNamesAuto": {1, "length of the generated identifiers: grows when the current width is exhausted"},
	"cmd.var samplesitesCmd$1":      {1, "output name, recomputed per sample when several files are written"},
	"cmd.var subseqCmd$1":           {3, "output file and file suffix of the current window/alignment: reopened when one file per window is requested"},
	"distance/protein.(*ProtDistModel).dist_F_Brent": {2, "a and b: the bracket of Brent's minimiser, narrowed on one side per step (thorough tier scope)"},
	"models.IncompleteGamma":                        {1, "gin: term of the continued fraction kept when the convergence test of this step is skipped (thorough tier scope)"},
	"cmd.var subsitesCmd$1":         {2, "output file, as in subseq; the site list, converted to alignment coordinates only when a reference sequence is given"},
}

// checkStaleState: no function of the given packages carries, from one iteration of a loop to the
// next, a variable that is overwritten only in some iterations, under a condition that does not
// involve it, with a value not computed from it, and that the loop body reads — beyond the
// state-machine variables listed in staleAllowed.
func (c *Ctx) checkStaleState(rule string, rels ...string) {
	L := c.L
	if c.Thorough() {
		rels = nil // thorough tier: every package of the module
	}
	L.Rule(rule, "no loop carries a variable from one iteration to the next that is overwritten in some iterations only (under a condition that does not read it, with a value not computed from it) and is read in the loop body — the key, length or buffer computed for one row/site/alignment must not be used for the next; the state-machine variables of the pinned tree that have this shape by design are listed with their reason and counted per function")
	type hit struct {
		vars []string
		pos  string
	}
	byRoot := map[string]*hit{}
	nFuncs, nLoops := 0, 0
	for _, fn := range c.srcFuncs(rels...) {
		if pk := fn.Pkg; len(rels) == 0 && pk != nil && strings.Contains(pk.Pkg.Path(), "/io/") {
			continue // the format parsers are token state machines by construction
		}
		nFuncs++
		for _, f := range withAnons(fn) {
			nLoops += len(naturalLoops(f))
		}
		for _, sv := range staleIterationState(fn) {
			root := sv.fn
			for root.Parent() != nil && root.Parent().Synthetic == "" {
				root = root.Parent()
			}
			name := c.P.FuncName(c.origFn(root))
			// a private helper is accounted to the functions it serves when there is exactly one
			if _, listed := staleAllowed[name]; !listed {
				if roots, ok := c.helperRoots(c.origFn(root)); ok && len(roots) == 1 {
					name = c.P.FuncName(roots[0])
				}
			}
			h := byRoot[name]
			if h == nil {
				h = &hit{pos: c.P.Pos(sv.phi.Pos())}
				byRoot[name] = h
			}
			h.vars = append(h.vars, sv.phi.Comment)
		}
	}
	var names []string
	for n := range byRoot {
		names = append(names, n)
	}
	sort.Strings(names)
	for _, n := range names {
		h := byRoot[n]
		al := staleAllowed[n]
		sort.Strings(h.vars)
		L.Check(len(h.vars) <= al.n, rule, n, "variables carried across iterations", h.pos,
			fmt.Sprintf("%d state-machine variable(s) %v, listed: %s", len(h.vars), h.vars, al.why),
			fmt.Sprintf("%d variable(s) %v keep the value of an earlier iteration when the current one does not overwrite them, and the loop body reads them (%d listed for this function): what was computed for one row, site or alignment is applied to the next", len(h.vars), h.vars, al.n))
	}
	L.OK(rule, "scope", fmt.Sprintf("packages %v", rels), "-", fmt.Sprintf("%d functions, %d loops examined", nFuncs, nLoops))
	if cp := c.Controls(); cp != nil {
		n := 0
		for _, fn := range cp.SrcFuncs() {
			if fn.Name() == "StaleKey" {
				n += len(staleIterationState(fn))
			}
		}
		L.ControlMustFire(rule, n > 0, "controls.StaleKey keeps the key of the previous name when neither branch assigns it")
	}
}

// loopInvariant: v is built from constants, parameters, captured variables and values defined
// outside the loop by comparisons, arithmetic and conversions only.
func loopInvariant(v ssa.Value, lp *loop, d int) bool {
	if d > 8 {
		return false
	}
	switch x := v.(type) {
	case *ssa.Const, *ssa.Parameter, *ssa.FreeVar, *ssa.Global, *ssa.Function:
		return true
	case *ssa.BinOp:
		if !lp.Blocks[x.Block()] {
			return true
		}
		return loopInvariant(x.X, lp, d+1) && loopInvariant(x.Y, lp, d+1)
	case *ssa.UnOp:
		if !lp.Blocks[x.Block()] {
			return true
		}
		if x.Op == token.MUL {
			// a load inside the loop of a field of a local struct that does not escape (only its
			// fields are addressed) and whose field the loop does not store to
			if fa, ok := x.X.(*ssa.FieldAddr); ok {
				if al, ok := fa.X.(*ssa.Alloc); ok && !lp.Blocks[al.Block()] {
					for _, ref := range *al.Referrers() {
						switch r := ref.(type) {
						case *ssa.FieldAddr:
							if r.Field != fa.Field {
								continue
							}
							for _, rr := range *r.Referrers() {
								if st, isSt := rr.(*ssa.Store); isSt && st.Addr == ssa.Value(r) && lp.Blocks[st.Block()] {
									return false
								}
								if _, isLoad := rr.(*ssa.UnOp); !isLoad {
									if _, isSt := rr.(*ssa.Store); !isSt {
										if _, isDbg := rr.(*ssa.DebugRef); !isDbg {
											return false // the field's address goes somewhere else
										}
									}
								}
							}
						case *ssa.DebugRef:
						case *ssa.Store:
							if r.Addr == ssa.Value(al) && lp.Blocks[r.Block()] {
								return false
							}
						default:
							return false
						}
					}
					return true
				}
			}
			return false
		}
		return loopInvariant(x.X, lp, d+1)
	case *ssa.Convert:
		return loopInvariant(x.X, lp, d+1)
	case *ssa.ChangeType:
		return loopInvariant(x.X, lp, d+1)
	case *ssa.Phi:
		if !lp.Blocks[x.Block()] {
			return true
		}
		// a short-circuit φ of invariant operands
		if x.Block() == lp.Head {
			return false
		}
		for _, e := range x.Edges {
			if !loopInvariant(e, lp, d+1) {
				return false
			}
		}
		return true
	case ssa.Instruction:
		return !lp.Blocks[x.Block()]
	}
	return false
}
