package rules

import (
	"fmt"
	"strings"
)

// checkResidueIndexTables: Nt2Index and AA2Index give the position of a residue in the state
// order of the models. Folded over the ASCII bytes they must (1) accept exactly the letters of
// the order string, in either case, with the index the letter has in it, and (2) return an error
// for every other byte. A hand-written case fold that misses one letter makes that residue an
// error in lower case only: the sites that carry it are dropped as if they held a gap.
func (c *Ctx) checkResidueIndexTables(rule string) {
	L := c.L
	L.Rule(rule, "align.Nt2Index and align.AA2Index, folded from their SSA form over the 128 ASCII bytes: the upper- and the lower-case letter of position k of the state order (ACGT, ARNDCQEGHILKMFPSTWYV) give index k with a nil error, every other byte gives an error")
	for _, sp := range []struct{ name, order string }{{"Nt2Index", "ACGT"}, {"AA2Index", "ARNDCQEGHILKMFPSTWYV"}} {
		r := c.fn("align", "", sp.name)
		if !r.ok() {
			continue
		}
		var diffs []string
		decided := 0
		for b := int64(0); b < 128; b++ {
			rs, ok := foldPureN(r.F, []int64{b}, 0, &foldBudget{})
			if !ok || len(rs) != 2 {
				continue
			}
			up := b
			if b >= 'a' && b <= 'z' {
				up = b - 'a' + 'A'
			}
			want := int64(strings.IndexByte(sp.order, byte(up)))
			switch {
			case want >= 0:
				if !rs[0].known {
					continue
				}
				decided++
				if rs[0].k != want || !rs[1].isNil {
					diffs = append(diffs, fmt.Sprintf("%s(%q) = %d, error nil: %v (want %d, nil)", sp.name, rune(b), rs[0].k, rs[1].isNil, want))
				}
			default:
				decided++
				if rs[1].isNil {
					diffs = append(diffs, fmt.Sprintf("%s(%q) returns no error", sp.name, rune(b)))
				}
			}
		}
		what := "table over the ASCII bytes"
		switch {
		case decided == 0:
			L.Trivial(rule, r.label, what, c.P.Pos(r.F.Pos()), "the function is not a pure function of its byte: its table cannot be folded, nothing is decided by this rule")
		case len(diffs) > 0:
			if len(diffs) > 5 {
				diffs = append(diffs[:5], fmt.Sprintf("… (%d entries differ)", len(diffs)))
			}
			L.Bad(rule, r.label, what, c.P.Pos(r.F.Pos()), "the residue index differs from the state order: "+strings.Join(diffs, "; "))
		case decided < 128:
			L.Unknown(rule, r.label, what, c.P.Pos(r.F.Pos()), fmt.Sprintf("only %d of 128 entries could be folded", decided))
		default:
			L.OK(rule, r.label, what, c.P.Pos(r.F.Pos()), "128 entries equal the state order in both cases")
		}
	}
	L.Floor(rule, 1, "two functions on the pinned tree")
}
