package rules

import (
	"fmt"

	"golang.org/x/tools/go/ssa"
)

// checkReverseSearchEveryRow: with reverse = true, (*seqbag).LongestORF searches the reverse
// strand of every sequence. In the loop over the sequences every path from the loop header back
// to it either passes the search on the reverse-complemented clone or crosses the false side of a
// test of the `reverse` parameter. A `continue` placed before it (no ORF on the forward strand)
// skips the reverse strand of exactly the sequences whose only ORF is there.
func (c *Ctx) checkReverseSearchEveryRow(rule string) {
	L := c.L
	L.Rule(rule, "in (*seqbag).LongestORF every way round the loop over the sequences passes the ORF search on the reverse-complemented clone unless it crosses the false side of a test of the reverse parameter")
	r := c.fn("align", "*seqbag", "LongestORF")
	if !r.ok() {
		return
	}
	fn := r.F
	var rev *ssa.Parameter
	for _, p := range fn.Params {
		if p.Type().String() == "bool" {
			rev = p
		}
	}
	if rev == nil {
		L.Unknown(rule, r.label, "reverse strand searched for every sequence", c.P.Pos(fn.Pos()), "no boolean parameter")
		return
	}
	// the reverse search: LongestORF() invoked on a value derived from a Clone() call
	search := map[*ssa.BasicBlock]bool{}
	allInstrs(fn, func(in ssa.Instruction) {
		cc := callOf(in)
		if cc == nil {
			return
		}
		name := ""
		var recv ssa.Value
		if cc.IsInvoke() {
			name, recv = cc.Method.Name(), cc.Value
		} else if g := cc.StaticCallee(); g != nil && len(cc.Args) > 0 {
			name, recv = g.Name(), cc.Args[0]
		}
		if name != "LongestORF" || recv == nil {
			return
		}
		for depth := 0; depth < 6 && recv != nil; depth++ {
			switch x := recv.(type) {
			case *ssa.MakeInterface:
				recv = x.X
				continue
			case *ssa.ChangeInterface:
				recv = x.X
				continue
			case *ssa.TypeAssert:
				recv = x.X
				continue
			case *ssa.Call:
				n2 := ""
				if x.Common().IsInvoke() {
					n2 = x.Common().Method.Name()
				} else if g := x.Common().StaticCallee(); g != nil {
					n2 = g.Name()
				}
				if n2 == "Clone" {
					search[in.Block()] = true
				}
			}
			break
		}
	})
	if len(search) == 0 {
		// the strands are handled in another form (collected in a list and searched by one loop …):
		// this rule reads the two-searches form only
		L.Trivial(rule, r.label, "reverse strand searched for every sequence", c.P.Pos(fn.Pos()), "no ORF search called directly on a reverse-complemented clone: the function is not written in the form this rule reads, nothing is decided")
		L.Floor(rule, 1, "one loop")
		return
	}
	n := 0
	for _, lp := range naturalLoops(fn) {
		has := false
		for b := range search {
			if lp.Blocks[b] {
				has = true
			}
		}
		if !has {
			continue
		}
		// outermost loop containing the search
		outer := true
		for _, o := range naturalLoops(fn) {
			if o.Head != lp.Head && o.Blocks[lp.Head] {
				for b := range search {
					if o.Blocks[b] {
						outer = false
					}
				}
			}
		}
		if !outer {
			continue
		}
		n++
		// walk from the header's body successor; do not enter search blocks; do not cross the false
		// side of a test of `reverse`
		seen := map[*ssa.BasicBlock]bool{}
		var work []*ssa.BasicBlock
		for _, s := range lp.Head.Succs {
			if lp.Blocks[s] {
				work = append(work, s)
			}
		}
		escaped := false
		for len(work) > 0 && !escaped {
			b := work[len(work)-1]
			work = work[:len(work)-1]
			if seen[b] || search[b] || !lp.Blocks[b] {
				continue
			}
			seen[b] = true
			succs := b.Succs
			if ifi, ok := b.Instrs[len(b.Instrs)-1].(*ssa.If); ok {
				cond, neg := ifi.Cond, false
				for {
					u, ok := cond.(*ssa.UnOp)
					if !ok {
						break
					}
					cond, neg = u.X, !neg
				}
				if cond == ssa.Value(rev) {
					// only the side on which reverse is true is of interest
					if !neg {
						succs = []*ssa.BasicBlock{b.Succs[0]}
					} else {
						succs = []*ssa.BasicBlock{b.Succs[1]}
					}
				}
			}
			for _, s := range succs {
				if s == lp.Head {
					escaped = true
				}
				work = append(work, s)
			}
		}
		L.Check(!escaped, rule, r.label, "reverse strand searched for every sequence", c.P.Pos(lp.Head.Instrs[0].Pos()),
			fmt.Sprintf("%d search site(s); with reverse set no way round the loop avoids them", len(search)),
			"with reverse set, an iteration of the loop over the sequences can end without the search on the reverse-complemented clone (an early continue): a sequence whose only ORF lies on the reverse strand is ignored")
	}
	if n == 0 {
		L.Unknown(rule, r.label, "reverse strand searched for every sequence", c.P.Pos(fn.Pos()), "the reverse search is not inside a loop")
	}
	L.Floor(rule, 1, "one loop")
}
