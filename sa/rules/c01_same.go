package rules

import (
	"go/constant"

	"golang.org/x/tools/go/ssa"
)

// checkSameSequenceLength: (*seq).SameSequence decides whether a row to be added duplicates a
// stored one (IGNORE_SEQUENCE). It may answer true only for a row of the same length: every
// return of `true` is reached only on paths where len(stored) == len(given) is known. An answer
// "same" for a proper prefix drops a shorter, different row silently.
func (c *Ctx) checkSameSequenceLength(rule string) {
	L := c.L
	L.Rule(rule, "(*seq).SameSequence returns true only on paths where the stored row and the given row are known to have the same length (linear bounds over the path conditions)")
	r := c.fn("align", "*seq", "SameSequence")
	if !r.ok() {
		return
	}
	fn := r.F
	if len(fn.Params) < 2 {
		L.Unknown(rule, r.label, "true only for equal lengths", c.P.Pos(fn.Pos()), "unexpected signature")
		return
	}
	lc := newLinCtx(c, fn)
	var stored ssa.Value
	allInstrs(fn, func(in ssa.Instruction) {
		if u, ok := in.(*ssa.UnOp); ok {
			if _, f, base := loadedField(u); base != nil && f == "sequence" && base == ssa.Value(fn.Params[0]) && stored == nil {
				stored = u
			}
		}
	})
	if stored == nil {
		L.Unknown(rule, r.label, "true only for equal lengths", c.P.Pos(fn.Pos()), "the stored row is not read")
		return
	}
	la, lb := lc.lenOf(stored), lc.lenOf(fn.Params[1])
	isTrue := func(v ssa.Value) bool {
		k, ok := v.(*ssa.Const)
		return ok && k.Value != nil && k.Value.Kind() == constant.Bool && constant.BoolVal(k.Value)
	}
	n, okAll := 0, true
	det := ""
	prove := func(b *ssa.BasicBlock) {
		n++
		ok1, d1 := lc.proveAll(b, nil, consLE(la, lb, "len(stored) <= len(given)"))
		ok2, d2 := lc.proveAll(b, nil, consLE(lb, la, "len(given) <= len(stored)"))
		if !ok1 || !ok2 {
			okAll = false
			if !ok1 {
				det = d1
			} else {
				det = d2
			}
		}
	}
	for _, b := range fn.Blocks {
		ret, ok := b.Instrs[len(b.Instrs)-1].(*ssa.Return)
		if !ok || len(ret.Results) != 1 {
			continue
		}
		v := ret.Results[0]
		switch x := v.(type) {
		case *ssa.Const:
			if isTrue(x) {
				prove(b)
			}
		case *ssa.Phi:
			for i, e := range x.Edges {
				if isTrue(e) {
					prove(x.Block().Preds[i])
				} else if _, isK := e.(*ssa.Const); !isK {
					// a computed answer (bytes.Equal(...)): equal contents imply equal lengths
					n++
				}
			}
		default:
			n++ // a computed answer
		}
	}
	if n == 0 {
		L.Unknown(rule, r.label, "true only for equal lengths", c.P.Pos(fn.Pos()), "no return found")
		return
	}
	L.Check(okAll, rule, r.label, "true only for equal lengths", c.P.Pos(fn.Pos()), "every return of true knows both lengths equal",
		"`true` can be returned for rows of different lengths (a proper prefix counts as the same sequence): "+det)
	L.Floor(rule, 1, "one helper")
}
