package rules

import (
	"fmt"
	"go/types"

	"golang.org/x/tools/go/ssa"
)

// Paired slices. Two local slices that start empty and are only ever extended together — every
// merge point merges them in parallel, and wherever one is the result of append(x, one element)
// the other is the result of append(y, one element) in the same block with (x, y) paired — have
// the same length at every program point where both are live in the same φ block. (An element
// store `s[i] = v` does not change a length and needs no pairing.) The relation is established
// coinductively over the φ-webs; lenOf then gives every member of a class the length of its
// representative, so `seqs[i]` under `i < len(names)` is an ordinary bounds proof instead of a
// hand-written justification.

func isEmptySlice(v ssa.Value) bool {
	switch x := v.(type) {
	case *ssa.Const:
		return x.IsNil()
	case *ssa.MakeSlice:
		k, ok := constInt(x.Len)
		return ok && k == 0
	case *ssa.Slice:
		// composite literal []T{} : slice of a zero-length array
		if a, ok := x.X.(*ssa.Alloc); ok {
			if p, ok := a.Type().Underlying().(*types.Pointer); ok {
				if arr, ok := p.Elem().Underlying().(*types.Array); ok {
					return arr.Len() == 0
				}
			}
		}
	}
	return false
}

func appendOne(v ssa.Value) (base ssa.Value, ok bool) {
	call, isCall := v.(*ssa.Call)
	if !isCall || builtinName(call.Common()) != "append" || len(call.Common().Args) != 2 {
		return nil, false
	}
	// the variadic part is a slice of a one-element array
	sl, isSl := call.Common().Args[1].(*ssa.Slice)
	if !isSl {
		return nil, false
	}
	a, isA := sl.X.(*ssa.Alloc)
	if !isA {
		return nil, false
	}
	p, isP := a.Type().Underlying().(*types.Pointer)
	if !isP {
		return nil, false
	}
	arr, isArr := p.Elem().Underlying().(*types.Array)
	if !isArr || arr.Len() != 1 {
		return nil, false
	}
	return call.Common().Args[0], true
}

func (lc *linCtx) lenRepOf(v ssa.Value) ssa.Value {
	if lc.lenRep == nil {
		lc.lenRep = pairedSlices(lc.fn)
	}
	return lc.lenRep[v]
}

// pairedSlices returns, for every φ of slice type that is paired with another one, the
// representative of its class.
func pairedSlices(fn *ssa.Function) map[ssa.Value]ssa.Value {
	rep := map[ssa.Value]ssa.Value{}
	var phis []*ssa.Phi
	allInstrs(fn, func(in ssa.Instruction) {
		if p, ok := in.(*ssa.Phi); ok {
			if _, isSlice := p.Type().Underlying().(*types.Slice); isSlice {
				phis = append(phis, p)
			}
		}
	})
	type pair struct{ a, b ssa.Value }
	var paired func(a, b ssa.Value, assume map[pair]bool, depth int) bool
	paired = func(a, b ssa.Value, assume map[pair]bool, depth int) bool {
		if depth > 40 {
			return false
		}
		if assume[pair{a, b}] {
			return true
		}
		if isEmptySlice(a) && isEmptySlice(b) {
			return true
		}
		pa, okA := a.(*ssa.Phi)
		pb, okB := b.(*ssa.Phi)
		if okA && okB {
			if pa.Block() != pb.Block() || len(pa.Edges) != len(pb.Edges) {
				return false
			}
			assume[pair{a, b}] = true
			for k := range pa.Edges {
				if !paired(pa.Edges[k], pb.Edges[k], assume, depth+1) {
					delete(assume, pair{a, b})
					return false
				}
			}
			return true
		}
		xa, okA2 := appendOne(a)
		xb, okB2 := appendOne(b)
		if okA2 && okB2 {
			if a.(*ssa.Call).Block() != b.(*ssa.Call).Block() {
				return false
			}
			return paired(xa, xb, assume, depth+1)
		}
		return false
	}
	for i := 0; i < len(phis); i++ {
		for j := i + 1; j < len(phis); j++ {
			a, b := phis[i], phis[j]
			if a.Block() != b.Block() {
				continue
			}
			as := map[pair]bool{}
			if paired(a, b, as, 0) {
				for pr := range as {
					ra := rep[pr.a]
					if ra == nil {
						ra = pr.a
					}
					rep[pr.a] = ra
					rep[pr.b] = ra
				}
			}
		}
	}
	return rep
}

// Counted slices. A slice φ p of a loop header whose back-edge values are all "p extended by
// exactly one element" (append(p, x), or a merge of such appends: every path through the body
// appends once), next to an integer φ q of the same header whose back-edge values are all q + 1,
// keeps len(p) - q constant over the loop: len(p) - q = len(p0) - q0 for the entry values p0, q0.
// `for i := 0; i < n; i++ { s = append(s, v) }` thus gives len(s) = i in the loop and after it.
func (lc *linCtx) countedFacts(p *ssa.Phi) []cons {
	if _, isSlice := p.Type().Underlying().(*types.Slice); !isSlice {
		return nil
	}
	h := p.Block()
	if !hasBackEdge(h) {
		return nil
	}
	var grown func(v ssa.Value, depth int) bool
	grown = func(v ssa.Value, depth int) bool {
		if depth > 8 {
			return false
		}
		if base, ok := appendOne(v); ok {
			return base == ssa.Value(p)
		}
		if q, ok := v.(*ssa.Phi); ok && q != p && !hasBackEdge(q.Block()) && h.Dominates(q.Block()) {
			for _, e := range q.Edges {
				if !grown(e, depth+1) {
					return false
				}
			}
			return len(q.Edges) > 0
		}
		return false
	}
	var len0 *lin
	for k, e := range p.Edges {
		if h.Dominates(h.Preds[k]) {
			if !grown(e, 0) {
				return nil
			}
			continue
		}
		l := lc.lenOf(e)
		if len0 != nil && !len0.equal(l) {
			return nil
		}
		len0 = &l
	}
	if len0 == nil {
		return nil
	}
	var out []cons
	lp := lc.lenOf(p)
	for _, in := range h.Instrs {
		q, ok := in.(*ssa.Phi)
		if !ok {
			break
		}
		if !isIntType(q.Type()) || len(q.Edges) != len(p.Edges) {
			continue
		}
		atom := q.Name() + "@" + shortFn(q)
		var q0 *lin
		okQ := true
		var stepped func(v ssa.Value, depth int) bool
		stepped = func(v ssa.Value, depth int) bool {
			if depth > 8 {
				return false
			}
			if m, ok := v.(*ssa.Phi); ok && m != q && !hasBackEdge(m.Block()) && h.Dominates(m.Block()) {
				for _, e := range m.Edges {
					if !stepped(e, depth+1) {
						return false
					}
				}
				return len(m.Edges) > 0
			}
			l := lc.of(v)
			return len(l.t) == 1 && l.t[atom] == 1 && l.c == 1
		}
		for k, e := range q.Edges {
			if h.Dominates(h.Preds[k]) {
				if !stepped(e, 0) {
					okQ = false
				}
				continue
			}
			l := lc.of(e)
			if q0 != nil && !q0.equal(l) {
				okQ = false
			}
			q0 = &l
		}
		if !okQ || q0 == nil {
			continue
		}
		// len(p) - q = len0 - q0
		lhs := lp.sub(linAtom(atom))
		rhs := len0.sub(*q0)
		why := fmt.Sprintf("%s grows by one element and %s by one in every iteration", lc.canon(p), atom)
		out = append(out, consLE(lhs, rhs, why), consLE(rhs, lhs, why))
	}
	return out
}
