package rules

import (
	"fmt"
	"go/constant"
	"go/token"
	"go/types"
	"sort"
	"strings"

	"golang.org/x/tools/go/ssa"
)

// ---------------------------------------------------------------------------
// E9 interprocedural views.
//
// The structural rules of E8 describe what a small function does to a row, a counter or a
// buffer. A behaviour-preserving edit often moves part of that into a private helper
// (extract-function), passes a function value, or flattens an if/else into a guard with
// `continue`. So that such edits do not change the verdict, the rules look at functions through
// two views that expand static calls to functions of the module:
//
//   frames   a call chain fn → helper → helper; a value that is a parameter of a helper is
//            resolved to the argument of the call in the calling frame;
//   words    the set of sequences of labelled events (calls, stores …) that can occur on a path
//            through a loop iteration or a function body, helpers expanded in place, truncated
//            at a fixed length. Counting ("exactly once per row") and ordering ("Complement
//            before Reverse") are read off the words, not off the syntax.
//
// Expansion is bounded (depth 3, no recursion) and only follows static calls to unexported
// functions of the caller's own package (the product of extract-function); an event matcher sees
// an instruction before it is considered for expansion.

type ipFrame struct {
	fn   *ssa.Function
	site *ssa.Call // call in up.fn that entered fn; nil for the root
	up   *ipFrame
}

func rootFrame(fn *ssa.Function) *ipFrame { return &ipFrame{fn: fn} }

func (fr *ipFrame) depth() int {
	d := 0
	for f := fr; f.up != nil; f = f.up {
		d++
	}
	return d
}

func (fr *ipFrame) root() *ipFrame {
	f := fr
	for f.up != nil {
		f = f.up
	}
	return f
}

// topSite: the call instruction in the root function through which this frame was entered
// (nil in the root frame itself).
func (fr *ipFrame) topSite() *ssa.Call {
	var s *ssa.Call
	for f := fr; f.up != nil; f = f.up {
		s = f.site
	}
	return s
}

// resolve follows parameters of helper frames to the arguments of their call sites.
func (fr *ipFrame) resolve(v ssa.Value) (ssa.Value, *ipFrame) {
	for {
		p, ok := v.(*ssa.Parameter)
		if !ok || fr.up == nil {
			return v, fr
		}
		idx := -1
		for i, q := range fr.fn.Params {
			if q == p {
				idx = i
			}
		}
		if idx < 0 || idx >= len(fr.site.Common().Args) {
			return v, fr
		}
		v = fr.site.Common().Args[idx]
		fr = fr.up
	}
}

// resolveDeep: like resolve, and also looks through value-preserving conversions between frames.
func (fr *ipFrame) resolveDeep(v ssa.Value) (ssa.Value, *ipFrame) {
	for {
		w, f := fr.resolve(v)
		s := stripConv(w)
		if _, isParam := s.(*ssa.Parameter); isParam && f.up != nil && s != w {
			v, fr = s, f
			continue
		}
		return w, f
	}
}

const ipMaxDepth = 3

// expandable: the callee of a static call whose body may be expanded in place.
func (c *Ctx) expandable(call *ssa.Call, fr *ipFrame) *ssa.Function {
	if fr.depth() >= ipMaxDepth {
		return nil
	}
	cc := call.Common()
	if cc.IsInvoke() {
		return nil
	}
	g := cc.StaticCallee()
	if g == nil {
		// a function-valued parameter bound to a named function in an outer frame
		if v, _ := fr.resolve(cc.Value); v != cc.Value {
			if f, ok := v.(*ssa.Function); ok {
				g = f
			}
		}
	}
	if g == nil || len(g.Blocks) == 0 || g.Pkg == nil || !strings.HasPrefix(g.Pkg.Pkg.Path(), c.P.ModPath) {
		return nil
	}
	if len(cc.Args) != len(g.Params) {
		return nil
	}
	// only private helpers of the caller's own package are part of "the function" as its author
	// sees it; exported functions have their own contract and are not looked into
	if g.Pkg != fr.fn.Pkg || token.IsExported(g.Name()) {
		return nil
	}
	for f := fr; f != nil; f = f.up {
		if f.fn == g {
			return nil
		}
	}
	return g
}

// ipWalk visits every instruction of fr.fn and, in place of each expandable call that the
// visitor does not claim (visit returns true to claim), the instructions of the callee.
func (c *Ctx) ipWalk(fr *ipFrame, visit func(in ssa.Instruction, fr *ipFrame) bool) {
	for _, b := range fr.fn.Blocks {
		for _, in := range b.Instrs {
			if visit(in, fr) {
				continue
			}
			if call, ok := in.(*ssa.Call); ok {
				if g := c.expandable(call, fr); g != nil {
					c.ipWalk(&ipFrame{fn: g, site: call, up: fr}, visit)
				}
			}
		}
	}
}

// loopDepthIP: number of natural loops enclosing the instruction, summed over the frames.
func loopDepthIP(in ssa.Instruction, fr *ipFrame) int {
	n := 0
	for f := fr; f != nil; f = f.up {
		for _, lp := range naturalLoops(f.fn) {
			if lp.Blocks[in.Block()] {
				n++
			}
		}
		if f.site == nil {
			break
		}
		in = f.site
	}
	return n
}

// ---------------------------------------------------------------------------
// words

type evMatcher func(in ssa.Instruction, fr *ipFrame) string

const wordMax = 5

type wordSet map[string]bool

func (w wordSet) list() []string {
	var out []string
	for k := range w {
		out = append(out, k)
	}
	sort.Strings(out)
	return out
}

func (w wordSet) String() string {
	l := w.list()
	for i, s := range l {
		if s == "" {
			l[i] = "ε"
		}
	}
	return "{" + strings.Join(l, " | ") + "}"
}

func wordAppend(w, label string) string {
	label = strings.ReplaceAll(label, " ", "")
	if strings.HasSuffix(w, "…") {
		return w
	}
	n := 0
	if w != "" {
		n = strings.Count(w, " ") + 1
	}
	if n >= wordMax {
		return w + " …"
	}
	if w == "" {
		return label
	}
	return w + " " + label
}

func wordConcat(a, b string) string {
	if b == "" {
		return a
	}
	out := a
	for _, l := range strings.Split(b, " ") {
		out = wordAppend(out, l)
	}
	return out
}

// A dataflow state is a word plus the outcome of the most recent expanded call that returns an
// error ("<id>=ok" / "<id>=err"): when the caller then branches on that very error value, only the
// states consistent with the branch follow it. Without this, `if err := helper(x); err != nil
// { return }` would pair the helper's failing path with the caller's continuing path.
type ipState struct{ w, tag string }

func callID(call *ssa.Call) string {
	return call.Parent().Name() + "." + call.Name()
}

// edgeAdmits: may a state with this tag follow the edge from→to?
func edgeAdmits(from, to *ssa.BasicBlock, tag string) bool {
	if tag == "" || len(from.Instrs) == 0 {
		return true
	}
	ifi, ok := from.Instrs[len(from.Instrs)-1].(*ssa.If)
	if !ok || from.Succs[0] == from.Succs[1] {
		return true
	}
	v, trueIsNil, ok := nilTestOf(ifi.Cond)
	if !ok {
		return true
	}
	call := errCallOf(v)
	if call == nil {
		return true
	}
	id := callID(call)
	if !strings.HasPrefix(tag, id+"=") {
		return true
	}
	kind := tag[len(id)+1:]
	edgeIsNil := (from.Succs[0] == to) == trueIsNil
	switch kind {
	case "ok":
		return edgeIsNil
	case "err":
		return !edgeIsNil
	}
	return true
}

// regionWords runs the word dataflow over the blocks of the region starting at start;
// collect(from, to) names the class of an edge that ends a word (to is nil for a Return).
// Returns the collected words per class.
func (c *Ctx) regionWords(fr *ipFrame, inRegion func(*ssa.BasicBlock) bool, start *ssa.BasicBlock,
	collect func(from, to *ssa.BasicBlock) string, match evMatcher) map[string]wordSet {
	out := map[string]wordSet{}
	add := func(class string, st ipState) {
		if class == "" {
			return
		}
		if out[class] == nil {
			out[class] = wordSet{}
		}
		out[class][st.w] = true
	}
	type stSet = map[ipState]bool
	inS := map[*ssa.BasicBlock]stSet{start: {ipState{}: true}}
	work := []*ssa.BasicBlock{start}
	for len(work) > 0 {
		b := work[0]
		work = work[1:]
		cur := stSet{}
		for st := range inS[b] {
			cur[st] = true
		}
		for _, in := range b.Instrs {
			if l := match(in, fr); l != "" {
				nc := stSet{}
				for st := range cur {
					nc[ipState{wordAppend(st.w, l), st.tag}] = true
				}
				cur = nc
				continue
			}
			if call, ok := in.(*ssa.Call); ok {
				if g := c.expandable(call, fr); g != nil {
					sub := c.funcWordsByKind(&ipFrame{fn: g, site: call, up: fr}, match)
					trivial := true
					for _, ws := range sub {
						if !(len(ws) == 1 && ws[""]) {
							trivial = false
						}
					}
					if trivial {
						continue
					}
					nc := stSet{}
					for st := range cur {
						for kind, ws := range sub {
							tag := st.tag
							if errResultIndex(g) >= 0 {
								tag = callID(call) + "=" + kind
							}
							for w := range ws {
								nc[ipState{wordConcat(st.w, w), tag}] = true
							}
						}
					}
					cur = nc
				}
			}
		}
		if len(b.Succs) == 0 {
			if _, isRet := b.Instrs[len(b.Instrs)-1].(*ssa.Return); isRet {
				for st := range cur {
					add(collect(b, nil), st)
				}
			}
			continue
		}
		for _, s := range b.Succs {
			cl := collect(b, s)
			if cl == "" && !inRegion(s) {
				continue
			}
			var old stSet
			if cl == "" {
				old = inS[s]
				if old == nil {
					old = stSet{}
					inS[s] = old
				}
			}
			grew := false
			for st := range cur {
				if !edgeAdmits(b, s, st.tag) {
					continue
				}
				if cl != "" {
					add(cl, st)
					continue
				}
				if !old[st] {
					old[st] = true
					grew = true
				}
			}
			if grew {
				work = append(work, s)
			}
		}
	}
	return out
}

// funcWordsByKind: words on paths from the entry of fr.fn to a return, by the kind of the
// returned error ("ok", "err", "unknown"; "ok" for functions without an error result).
func (c *Ctx) funcWordsByKind(fr *ipFrame, match evMatcher) map[string]wordSet {
	fn := fr.fn
	if len(fn.Blocks) == 0 {
		return map[string]wordSet{"ok": {"": true}}
	}
	// classification of return edges: a φ-valued error is classified per incoming edge
	blockKind := map[*ssa.BasicBlock]string{}
	type edge struct{ from, to *ssa.BasicBlock }
	edgeKind := map[edge]string{}
	for _, e := range returnEdges(fn) {
		rb := e.ret.Block()
		if e.block == rb {
			blockKind[rb] = e.kind
		} else {
			edgeKind[edge{e.block, rb}] = e.kind
		}
	}
	res := c.regionWords(fr, func(*ssa.BasicBlock) bool { return true }, fn.Blocks[0],
		func(from, to *ssa.BasicBlock) string {
			if to == nil {
				if k, ok := blockKind[from]; ok {
					return k
				}
				return "" // classified on its incoming edges
			}
			if k, ok := edgeKind[edge{from, to}]; ok {
				// events inside the return block itself would be lost: only sound when it has none
				for _, in := range to.Instrs {
					if match(in, fr) != "" {
						return ""
					}
					if call, isCall := in.(*ssa.Call); isCall && c.expandable(call, fr) != nil {
						return ""
					}
				}
				return k
			}
			return ""
		}, match)
	if len(res) == 0 {
		return map[string]wordSet{"unknown": {"": true}}
	}
	return res
}

// funcWords: words on paths from the entry of fr.fn to a return.
func (c *Ctx) funcWords(fr *ipFrame, match evMatcher) wordSet {
	out := wordSet{}
	for _, ws := range c.funcWordsByKind(fr, match) {
		for w := range ws {
			out[w] = true
		}
	}
	return out
}

// loopWords: words of one iteration of lp. Classes: "next" (path from the head back to the head),
// "exit" (path from the head to an edge that leaves the loop from a block other than the head),
// "done" (the head's own exit edge), "ret" (a return inside the loop).
func (c *Ctx) loopWords(fr *ipFrame, lp *loop, match evMatcher) map[string]wordSet {
	return c.regionWords(fr, func(b *ssa.BasicBlock) bool { return lp.Blocks[b] }, lp.Head,
		func(from, to *ssa.BasicBlock) string {
			switch {
			case to == nil:
				return "ret"
			case to == lp.Head:
				return "next"
			case !lp.Blocks[to]:
				if from == lp.Head {
					return "done"
				}
				return "exit"
			}
			return ""
		}, match)
}

// ---------------------------------------------------------------------------
// branch facts
//
// boolFacts computes, for every block, the comparisons (boolean SSA values) whose outcome is the
// same on every path that reaches the block: a must-analysis (intersection at joins) over the
// edges of If terminators. A condition that is a φ of booleans (the value of `a || b`, a named
// `toReplace := a || b || c`, a tagless switch) is decomposed: the φ is false only if it was
// reached through an edge whose value is false, so the facts of that predecessor hold as well.
// Rules ask "is the max store reached only when d < 0 was false" instead of looking for an
// if/else shape.

type factSet map[string]bool // "<value name>=T" / "=F"; nil = ⊤ (unreached)

func factKey(v ssa.Value, truth bool) string {
	if truth {
		return v.Name() + "=T"
	}
	return v.Name() + "=F"
}

type branchFacts struct {
	in, out map[*ssa.BasicBlock]factSet
}

func intersectFacts(a, b factSet) factSet {
	if a == nil {
		return b
	}
	if b == nil {
		return a
	}
	o := factSet{}
	for k := range a {
		if b[k] {
			o[k] = true
		}
	}
	return o
}

func copyFacts(a factSet) factSet {
	o := factSet{}
	for k := range a {
		o[k] = true
	}
	return o
}

func computeBranchFacts(fn *ssa.Function) *branchFacts {
	bf := &branchFacts{in: map[*ssa.BasicBlock]factSet{}, out: map[*ssa.BasicBlock]factSet{}}
	if len(fn.Blocks) == 0 {
		return bf
	}
	bf.in[fn.Blocks[0]] = factSet{}
	valueFacts := bf.valueFacts
	changed := true
	for iter := 0; changed && iter < 50; iter++ {
		changed = false
		for _, b := range fn.Blocks {
			var in factSet
			if b == fn.Blocks[0] {
				in = factSet{}
			} else {
				for _, p := range b.Preds {
					po := bf.out[p]
					if po == nil {
						continue // unreached so far
					}
					fs := copyFacts(po)
					for k := range edgeFactsOf(p, b, valueFacts, 0) {
						fs[k] = true
					}
					in = intersectFacts(in, fs)
				}
				if in == nil {
					continue
				}
			}
			// facts about values defined in this block cannot come from outside a loop iteration
			for _, ins := range b.Instrs {
				if v, ok := ins.(ssa.Value); ok {
					delete(in, factKey(v, true))
					delete(in, factKey(v, false))
				}
			}
			old := bf.in[b]
			if old == nil || len(old) != len(in) {
				changed = true
			} else {
				for k := range in {
					if !old[k] {
						changed = true
					}
				}
			}
			bf.in[b] = in
			bf.out[b] = in
		}
	}
	return bf
}

// valueFacts: what is known when the boolean v has the given truth value.
func (bf *branchFacts) valueFacts(v ssa.Value, truth bool, depth int) factSet {
	valueFacts := bf.valueFacts
	{
		out := factSet{factKey(v, truth): true}
		if depth > 6 {
			return out
		}
		switch x := v.(type) {
		case *ssa.UnOp:
			if x.Op == token.NOT {
				for k := range valueFacts(x.X, !truth, depth+1) {
					out[k] = true
				}
			}
		case *ssa.Phi:
			var acc factSet
			feasible := 0
			for i, e := range x.Edges {
				if k, ok := e.(*ssa.Const); ok && k.Value != nil && k.Value.Kind() == constant.Bool {
					if constant.BoolVal(k.Value) != truth {
						continue // this edge gives the other truth value
					}
					feasible++
					p := x.Block().Preds[i]
					fs := copyFacts(bf.out[p])
					for kk := range edgeFactsOf(p, x.Block(), valueFacts, depth+1) {
						fs[kk] = true
					}
					acc = intersectFacts(acc, fs)
					continue
				}
				feasible++
				p := x.Block().Preds[i]
				fs := copyFacts(bf.out[p])
				for kk := range edgeFactsOf(p, x.Block(), valueFacts, depth+1) {
					fs[kk] = true
				}
				for kk := range valueFacts(e, truth, depth+1) {
					fs[kk] = true
				}
				acc = intersectFacts(acc, fs)
			}
			if feasible > 0 && acc != nil {
				for k := range acc {
					out[k] = true
				}
			}
		}
		return out
	}
}

// edgeFactsOf: facts established by taking the edge p→b.
func edgeFactsOf(p, b *ssa.BasicBlock, valueFacts func(ssa.Value, bool, int) factSet, depth int) factSet {
	if len(p.Instrs) == 0 {
		return nil
	}
	ifi, ok := p.Instrs[len(p.Instrs)-1].(*ssa.If)
	if !ok || p.Succs[0] == p.Succs[1] {
		return nil
	}
	return valueFacts(ifi.Cond, p.Succs[0] == b, depth)
}

// knownAt: is boolean value v known to have the given truth value whenever block b is reached?
func (bf *branchFacts) knownAt(b *ssa.BasicBlock, v ssa.Value, truth bool) bool {
	return bf.in[b][factKey(v, truth)]
}

// helperParamFacts: for a helper g of the module that returns one bool, the constants k such that
// "result == truth" implies "parameter #pi != k" (value "!=") or "parameter #pi == k" ("==").
// Derived from the helper's own branch facts at its returns, so `return c != A && c != B`, an
// if-chain with early `return false`, or a switch are all read the same way.
func helperParamFacts(g *ssa.Function, pi int, truth bool) map[int64]string {
	out := map[int64]string{}
	if g == nil || len(g.Blocks) == 0 || pi >= len(g.Params) || g.Signature.Results().Len() != 1 {
		return out
	}
	bf := computeBranchFacts(g)
	var acc factSet
	feasible := 0
	allInstrs(g, func(in ssa.Instruction) {
		r, ok := in.(*ssa.Return)
		if !ok || len(r.Results) != 1 {
			return
		}
		v := r.Results[0]
		if k, isK := v.(*ssa.Const); isK && k.Value != nil && k.Value.Kind() == constant.Bool {
			if constant.BoolVal(k.Value) != truth {
				return
			}
			feasible++
			acc = intersectFacts(acc, copyFacts(bf.in[r.Block()]))
			return
		}
		feasible++
		fs := copyFacts(bf.in[r.Block()])
		for k := range bf.valueFacts(v, truth, 0) {
			fs[k] = true
		}
		acc = intersectFacts(acc, fs)
	})
	if feasible == 0 || acc == nil {
		return out
	}
	allInstrs(g, func(in ssa.Instruction) {
		bo, ok := in.(*ssa.BinOp)
		if !ok || (bo.Op != token.NEQ && bo.Op != token.EQL) {
			return
		}
		if stripConv(bo.X) != ssa.Value(g.Params[pi]) {
			return
		}
		k, isK := constInt(bo.Y)
		if !isK {
			return
		}
		t, f := acc[factKey(bo, true)], acc[factKey(bo, false)]
		switch {
		case (bo.Op == token.NEQ && t) || (bo.Op == token.EQL && f):
			out[k] = "!="
		case (bo.Op == token.NEQ && f) || (bo.Op == token.EQL && t):
			out[k] = "=="
		}
	})
	return out
}

// withHelperDecls: the declaration names ("(*T).Name" / "Name") of a function and of the
// unexported functions of its package that it reaches by static calls (depth ≤ 3) — the scope of
// an AST rule that must survive extract-function.
func (c *Ctx) withHelperDecls(rel, recv, name string) map[string]bool {
	out := map[string]bool{}
	r := c.fn(rel, recv, name)
	if !r.ok() {
		return out
	}
	declOf := func(f *ssa.Function) string {
		if f.Signature.Recv() != nil {
			t := f.Signature.Recv().Type()
			s := types.TypeString(t, func(*types.Package) string { return "" })
			return "(" + s + ")." + f.Name()
		}
		return f.Name()
	}
	out[declOf(r.F)] = true
	c.ipWalk(rootFrame(r.F), func(in ssa.Instruction, fr *ipFrame) bool {
		if call, ok := in.(*ssa.Call); ok {
			if g := c.expandable(call, fr); g != nil {
				if g.Pkg != r.F.Pkg || token.IsExported(g.Name()) {
					return true // not followed
				}
				out[declOf(g)] = true
			}
		}
		return false
	})
	return out
}

// helperDeclsOf: union of withHelperDecls over several (receiver, name) pairs of one package.
func (c *Ctx) helperDeclsOf(rel string, pairs ...[2]string) map[string]bool {
	out := map[string]bool{}
	for _, p := range pairs {
		for k := range c.withHelperDecls(rel, p[0], p[1]) {
			out[k] = true
		}
	}
	return out
}

// srcFuncs: the source functions of the given packages; in view mode each is replaced by its
// inlined view (closures through the view of their enclosing function).
func (c *Ctx) srcFuncs(rels ...string) []*ssa.Function {
	fns := c.P.SrcFuncs(rels...)
	if !c.ViewMode {
		return fns
	}
	out := make([]*ssa.Function, 0, len(fns))
	for _, f := range fns {
		out = append(out, c.viewOf(f))
	}
	return out
}

// privateHelperOf: fn is an unexported function of the module that is never used as a value and
// whose static callers all satisfy ok (directly, or by being such helpers themselves). This is the
// shape extract-function produces; a who-may-write table accepts such a helper on behalf of its
// callers instead of freezing the set of function names.
func (c *Ctx) privateHelperOf(fn *ssa.Function, ok func(caller string) bool) (bool, []string) {
	if c.callersIdx == nil {
		c.callersIdx = map[*ssa.Function][]*ssa.Function{}
		c.valueUse = map[*ssa.Function]bool{}
		for _, g := range c.P.SrcFuncs() {
			allInstrs(g, func(in ssa.Instruction) {
				var rands []*ssa.Value
				cc := callOf(in)
				for _, p := range in.Operands(rands) {
					f, isF := (*p).(*ssa.Function)
					if !isF {
						continue
					}
					if cc != nil && cc.StaticCallee() == f && cc.Value == ssa.Value(f) {
						c.callersIdx[f] = append(c.callersIdx[f], g)
					} else {
						c.valueUse[f] = true
					}
				}
			})
		}
	}
	seen := map[*ssa.Function]bool{}
	var names []string
	var rec func(f *ssa.Function, depth int) bool
	rec = func(f *ssa.Function, depth int) bool {
		if depth > 3 || seen[f] {
			return false
		}
		seen[f] = true
		if f.Parent() != nil || token.IsExported(f.Name()) || c.valueUse[f] || len(c.callersIdx[f]) == 0 {
			return false
		}
		for _, g := range c.callersIdx[f] {
			root := g
			for root.Parent() != nil {
				root = root.Parent()
			}
			n := c.P.FuncName(g)
			if ok(n) || ok(c.P.FuncName(root)) {
				names = append(names, n)
				continue
			}
			if !rec(root, depth+1) {
				return false
			}
		}
		return true
	}
	res := rec(fn, 0)
	return res, dedupe(names)
}

// knownOnEdge: is v known to have the given truth value whenever the edge p→b is taken?
func (bf *branchFacts) knownOnEdge(p, b *ssa.BasicBlock, v ssa.Value, truth bool) bool {
	k := factKey(v, truth)
	if bf.out[p][k] {
		return true
	}
	return edgeFactsOf(p, b, bf.valueFacts, 0)[k]
}

// ---------------------------------------------------------------------------
// path classes over chosen atoms

// atomPaths enumerates, for a block, the classes of acyclic paths from the entry (or from a given
// start block) to it, each class being the set of outcomes of the chosen atomic conditions met on
// the way ("t3=T;t7=F"). Classes with the same outcome set are merged, so branches on other
// conditions do not multiply them. Back edges are not followed.
type atomPaths struct {
	isAtom func(ssa.Value) bool
	name   func(ssa.Value) string // optional: logical name of an atom (several comparisons, one role)
	start  *ssa.BasicBlock // nil: function entry
	memo   map[*ssa.BasicBlock]map[string]bool
	stack  map[*ssa.BasicBlock]bool
}

func newAtomPaths(isAtom func(ssa.Value) bool, start *ssa.BasicBlock) *atomPaths {
	return &atomPaths{isAtom: isAtom, start: start, memo: map[*ssa.BasicBlock]map[string]bool{}, stack: map[*ssa.BasicBlock]bool{}}
}

func joinAlt(a, k string) string {
	if a == "" {
		return k
	}
	parts := strings.Split(a, ";")
	for _, p := range parts {
		if p == k {
			return a
		}
	}
	parts = append(parts, k)
	sort.Strings(parts)
	return strings.Join(parts, ";")
}

func (ap *atomPaths) atomName(v ssa.Value) string {
	if ap.name != nil {
		if n := ap.name(v); n != "" {
			return n
		}
	}
	return v.Name()
}

func (ap *atomPaths) edgeAtom(p, b *ssa.BasicBlock) string {
	k, _ := ap.edgeAtomVia(p, b, -1)
	return k
}

// edgeAtomVia: the atom outcome established by taking p→b when p was entered through its
// predecessor number via (-1: unknown). A condition that is a φ of booleans in p is resolved on
// that incoming edge: a constant decides whether the edge p→b is feasible at all, an atom adds its
// outcome. feasible=false means this combination cannot happen.
func (ap *atomPaths) edgeAtomVia(p, b *ssa.BasicBlock, via int) (atom string, feasible bool) {
	if len(p.Instrs) == 0 {
		return "", true
	}
	ifi, ok := p.Instrs[len(p.Instrs)-1].(*ssa.If)
	if !ok || p.Succs[0] == p.Succs[1] {
		return "", true
	}
	cond, truth := ifi.Cond, p.Succs[0] == b
	for depth := 0; depth < 8; depth++ {
		if u, ok := cond.(*ssa.UnOp); ok && u.Op == token.NOT {
			cond, truth = u.X, !truth
			continue
		}
		if phi, ok := cond.(*ssa.Phi); ok && phi.Block() == p && via >= 0 && via < len(phi.Edges) {
			cond = phi.Edges[via]
			continue
		}
		break
	}
	if k, ok := cond.(*ssa.Const); ok && k.Value != nil && k.Value.Kind() == constant.Bool {
		return "", constant.BoolVal(k.Value) == truth
	}
	if !ap.isAtom(cond) {
		return "", true
	}
	if truth {
		return ap.atomName(cond) + "=T", true
	}
	return ap.atomName(cond) + "=F", true
}

// resolveCond: the outcome of taking the edge p→b for a path of class a. Returns the class
// extended by what the edge establishes, and whether the edge is feasible for that class.
// A condition that is a boolean φ is looked up in the class (see phiBindings).
func (ap *atomPaths) resolveCond(p, b *ssa.BasicBlock, a string) (string, bool) {
	if len(p.Instrs) == 0 {
		return a, true
	}
	ifi, ok := p.Instrs[len(p.Instrs)-1].(*ssa.If)
	if !ok || p.Succs[0] == p.Succs[1] {
		return a, true
	}
	cond, truth := ifi.Cond, p.Succs[0] == b
	for depth := 0; depth < 8; depth++ {
		if u, ok := cond.(*ssa.UnOp); ok && u.Op == token.NOT {
			cond, truth = u.X, !truth
			continue
		}
		if phi, ok := cond.(*ssa.Phi); ok {
			// bound on this path?
			pre := phi.Name()
			found := false
			if a != "" {
				for _, part := range strings.Split(a, ";") {
					if strings.HasPrefix(part, pre+"=") {
						return a, (part[len(part)-1] == 'T') == truth
					}
					if strings.HasPrefix(part, pre+"@") {
						// alias: φ equals (T) or is the negation of (F) the named atom
						atom := part[len(pre)+1 : len(part)-2]
						same := part[len(part)-1] == 'T'
						t := truth == same
						k := atom + "=F"
						if t {
							k = atom + "=T"
						}
						na := joinAlt(a, k)
						return na, !contradictory(na)
					}
				}
			}
			if !found {
				return a, true
			}
		}
		break
	}
	if k, ok := cond.(*ssa.Const); ok && k.Value != nil && k.Value.Kind() == constant.Bool {
		return a, constant.BoolVal(k.Value) == truth
	}
	if !ap.isAtom(cond) {
		return a, true
	}
	k := ap.atomName(cond) + "=F"
	if truth {
		k = ap.atomName(cond) + "=T"
	}
	na := joinAlt(a, k)
	return na, !contradictory(na)
}

// phiBindings records, for a path of class a entering b through predecessor number via, what the
// boolean φ-nodes of b are on that path: a constant ("t7=T"), or an atom or its negation
// ("t7@G=T" / "t7@G=F"), or another φ already bound in the class.
func (ap *atomPaths) phiBindings(b *ssa.BasicBlock, via int, a string) string {
	for _, in := range b.Instrs {
		phi, ok := in.(*ssa.Phi)
		if !ok {
			break
		}
		if bt, isB := phi.Type().Underlying().(*types.Basic); !isB || bt.Kind() != types.Bool || via >= len(phi.Edges) {
			continue
		}
		e, neg := phi.Edges[via], false
		for {
			u, ok := e.(*ssa.UnOp)
			if !ok || u.Op != token.NOT {
				break
			}
			e, neg = u.X, !neg
		}
		tf := func(t bool) string {
			if t {
				return "T"
			}
			return "F"
		}
		switch x := e.(type) {
		case *ssa.Const:
			if x.Value != nil && x.Value.Kind() == constant.Bool {
				a = joinAlt(a, phi.Name()+"="+tf(constant.BoolVal(x.Value) != neg))
			}
		case *ssa.Phi:
			if a != "" {
				for _, part := range strings.Split(a, ";") {
					if strings.HasPrefix(part, x.Name()+"=") {
						a = joinAlt(a, phi.Name()+"="+tf((part[len(part)-1] == 'T') != neg))
					} else if strings.HasPrefix(part, x.Name()+"@") {
						atom := part[len(x.Name())+1 : len(part)-2]
						a = joinAlt(a, phi.Name()+"@"+atom+"="+tf((part[len(part)-1] == 'T') != neg))
					}
				}
			}
		default:
			if ap.isAtom(e) {
				// the atom's own value on this path may already be known
				n := ap.atomName(e)
				known := false
				if a != "" {
					for _, part := range strings.Split(a, ";") {
						if part == n+"=T" || part == n+"=F" {
							a = joinAlt(a, phi.Name()+"="+tf((part[len(part)-1] == 'T') != neg))
							known = true
						}
					}
				}
				if !known {
					a = joinAlt(a, phi.Name()+"@"+n+"="+tf(!neg))
				}
			}
		}
	}
	return a
}

func (ap *atomPaths) at(b *ssa.BasicBlock) map[string]bool {
	if m, ok := ap.memo[b]; ok {
		return m
	}
	if ap.stack[b] {
		return map[string]bool{}
	}
	ap.stack[b] = true
	out := map[string]bool{}
	if len(b.Preds) == 0 || b == ap.start {
		out[""] = true
	}
	if b != ap.start {
		for via, p := range b.Preds {
			if b.Dominates(p) {
				continue // back edge
			}
			for a := range ap.at(p) {
				na, feasible := ap.resolveCond(p, b, a)
				if !feasible {
					continue
				}
				na = ap.phiBindings(b, via, na)
				out[na] = true
			}
		}
	}
	ap.stack[b] = false
	ap.memo[b] = out
	return out
}

func altHas(a, k string) bool {
	for _, p := range strings.Split(a, ";") {
		if p == k {
			return true
		}
	}
	return false
}

// hasPhiCond: the block ends in an If whose condition is (the negation of) a φ of the same block.
func (ap *atomPaths) hasPhiCond(p *ssa.BasicBlock) bool {
	if len(p.Instrs) == 0 {
		return false
	}
	ifi, ok := p.Instrs[len(p.Instrs)-1].(*ssa.If)
	if !ok {
		return false
	}
	cond := ifi.Cond
	for {
		u, ok := cond.(*ssa.UnOp)
		if !ok || u.Op != token.NOT {
			break
		}
		cond = u.X
	}
	phi, ok := cond.(*ssa.Phi)
	return ok && phi.Block() == p
}

// contradictory: the class requires some atom to be both true and false.
func contradictory(a string) bool {
	if a == "" {
		return false
	}
	seen := map[string]byte{}
	for _, p := range strings.Split(a, ";") {
		n, t := p[:len(p)-2], p[len(p)-1]
		if o, ok := seen[n]; ok && o != t {
			return true
		}
		seen[n] = t
	}
	return false
}

// reachableUnder: does some class of the set agree with the assignment (atoms the class does not
// mention are free)?
func reachableUnder(alts map[string]bool, sigma map[string]bool) bool {
	for a := range alts {
		ok := true
		if a != "" {
			for _, p := range strings.Split(a, ";") {
				n, t := p[:len(p)-2], p[len(p)-1] == 'T'
				if v, has := sigma[n]; has && v != t {
					ok = false
					break
				}
			}
		}
		if ok {
			return true
		}
	}
	return false
}

// ---------------------------------------------------------------------------
// forward exploration with boolean flags

// flagWalk explores the paths that start with the edge from→to, carrying the boolean values that
// are known on the way: a φ of booleans takes the constant (or the known value) that flows in on
// the edge taken, `!x` of a known x is known, and an If on a known value is followed on that side
// only. A flag set in a loop and tested by the loop condition and again after the loop
// (`failed = true` … `for … && !failed` … `if failed { return err }`) is thereby followed to the
// return it selects. visit is called for every block entered (with the predecessor it was entered
// from) and prunes the path by returning false; ret for every Return reached, with the error kind of its error result on that path
// ("err", "ok" or "unknown").
func flagWalk(fn *ssa.Function, from, to *ssa.BasicBlock, visit func(b, pred *ssa.BasicBlock) bool, ret func(r *ssa.Return, kind string), nonNil ...ssa.Value) {
	type state struct {
		b, pred *ssa.BasicBlock
		sig     string
	}
	seen := map[state]bool{}
	errIdx := errResultIndex(fn)
	// values known to be non-nil on the paths explored (an error just tested): carried through the
	// φ-nodes they flow into, so that a later `if err != nil` on the merged variable is decided too
	nn0 := map[ssa.Value]bool{}
	for _, v := range nonNil {
		nn0[v] = true
	}
	var walk func(b, pred *ssa.BasicBlock, known map[ssa.Value]bool)
	walk = func(b, pred *ssa.BasicBlock, known map[ssa.Value]bool) {
		// φ-nodes and negations of this block
		nk := map[ssa.Value]bool{}
		for k, v := range known {
			nk[k] = v
		}
		pi := -1
		for i, p := range b.Preds {
			if p == pred {
				pi = i
			}
		}
		phiVal := map[*ssa.Phi]ssa.Value{}
		for _, in := range b.Instrs {
			switch x := in.(type) {
			case *ssa.Phi:
				if pi < 0 || pi >= len(x.Edges) {
					delete(nk, x)
					continue
				}
				e := x.Edges[pi]
				phiVal[x] = e
				if !isBoolType(x.Type()) {
					// non-nil-ness: encoded in the same map under the φ itself (true = non-nil)
					if nn0[e] || (known[e] && !isBoolType(e.Type())) {
						nk[x] = true
					} else {
						delete(nk, x)
					}
					continue
				}
				if k, ok := e.(*ssa.Const); ok && k.Value != nil && k.Value.Kind() == constant.Bool {
					nk[x] = constant.BoolVal(k.Value)
				} else if v, ok := known[e]; ok {
					nk[x] = v
				} else {
					delete(nk, x)
				}
			case *ssa.UnOp:
				if x.Op == token.NOT {
					if v, ok := nk[x.X]; ok {
						nk[x] = !v
					} else {
						delete(nk, x)
					}
				}
			}
		}
		var keys []string
		for k, v := range nk {
			keys = append(keys, fmt.Sprintf("%s=%v", k.Name(), v))
		}
		sort.Strings(keys)
		st := state{b, pred, strings.Join(keys, ";")}
		if seen[st] {
			return
		}
		seen[st] = true
		if visit != nil && !visit(b, pred) {
			return // pruned by the caller
		}
		switch t := b.Instrs[len(b.Instrs)-1].(type) {
		case *ssa.Return:
			kind := "ok"
			if errIdx >= 0 && errIdx < len(t.Results) {
				ev := t.Results[errIdx]
				if phi, ok := ev.(*ssa.Phi); ok && phi.Block() == b {
					if e, ok := phiVal[phi]; ok {
						ev = e
					}
				}
				kind = classifyErrValue(ev)
			}
			if ret != nil {
				ret(t, kind)
			}
		case *ssa.If:
			if x, trueIsNil, ok := nilTestOf(t.Cond); ok && b.Succs[0] != b.Succs[1] && !isBoolType(x.Type()) && (nn0[x] || nk[x]) {
				if trueIsNil {
					walk(b.Succs[1], b, nk)
				} else {
					walk(b.Succs[0], b, nk)
				}
				return
			}
			if v, ok := nk[t.Cond]; ok && b.Succs[0] != b.Succs[1] {
				if v {
					walk(b.Succs[0], b, nk)
				} else {
					walk(b.Succs[1], b, nk)
				}
				return
			}
			for _, s := range b.Succs {
				walk(s, b, nk)
			}
		default:
			for _, s := range b.Succs {
				walk(s, b, nk)
			}
		}
	}
	walk(to, from, map[ssa.Value]bool{})
}
