package rules

import (
	"fmt"
	"go/token"
	"go/types"
	"math/big"
	"strings"

	"golang.org/x/tools/go/ssa"

	"goalignsa/core"
)

// Closed-form estimators. The value returned by each Distance method of the corrected models is
// read off the SSA value graph as a rational function of the observed proportions, the model
// fields and applications of math.Log / math.Pow (kept as uninterpreted atoms, identified up to
// equality of their arguments as rational functions), once for gamma = true and once for
// gamma = false, and compared — as a polynomial identity — with the published estimator written
// with L(x) = ln x, resp. L(x) = α(1 − x^(−1/α)) under the gamma correction:
//
//	JC69   d = −3/4 · L(1 − 4p/3)
//	K2P    d = −1/2 · L(1 − 2P − Q) − 1/4 · L(1 − 2Q)
//	F81    d = −B · L(1 − p/B)
//	F84    d = −2A · L(1 − P/(2A) − (A−B)Q/(2AC)) + 2(A − B − C) · L(1 − Q/(2C))
//	TN93   d = −(2πAπG/πR) · L(1 − πR·P1/(2πAπG) − Q/(2πR)) − (2πCπT/πY) · L(1 − πY·P2/(2πCπT) − Q/(2πY))
//	           − 2(πRπY − πAπGπY/πR − πCπTπR/πY) · L(1 − Q/(2πRπY))
//
// Any regrouping of the source (hoisted sub-expressions, factors distributed differently, the
// b1/b2/b3 arrangement of TN93) normalises to the same rational function; a wrong constant, a
// swapped proportion or an `e2` for `e3` does not.

type symCtx struct {
	atoms []symAtom
	recv  *ssa.Parameter
	leaf  func(ssa.Value) (frac, bool) // rule-specific symbols, tried first
	binds map[*ssa.Parameter]ssa.Value // parameters of helpers read through -> the caller's argument
}

type symAtom struct {
	fn   string
	args []frac
	name string
}

func fracConst(n, d int64) frac { return frac{polyConst(big.NewRat(n, d)), polyConst(big.NewRat(1, 1))} }
func fracSym(s string) frac      { return frac{polyVar(s), polyConst(big.NewRat(1, 1))} }
func (a frac) neg() frac         { return frac{poly{}.add(a.num, -1), a.den} }
func (a frac) sub(b frac) frac   { return a.add(b.neg()) }
func (a frac) mul(b frac) frac   { return frac{a.num.mul(b.num), a.den.mul(b.den)} }
func (a frac) div(b frac) frac   { return frac{a.num.mul(b.den), a.den.mul(b.num)} }
func (a frac) eq(b frac) bool    { return a.num.mul(b.den).add(b.num.mul(a.den), -1).isZero() }

func (sc *symCtx) apply(fn string, args ...frac) frac {
	for _, at := range sc.atoms {
		if at.fn != fn || len(at.args) != len(args) {
			continue
		}
		same := true
		for i := range args {
			if !at.args[i].eq(args[i]) {
				same = false
			}
		}
		if same {
			return fracSym(at.name)
		}
	}
	name := fmt.Sprintf("%s_%d", fn, len(sc.atoms))
	sc.atoms = append(sc.atoms, symAtom{fn, args, name})
	return fracSym(name)
}

// inlinable: g is a function of the module without loops and with a single return: its results are
// expressions of its parameters. Returns that return.
func (sc *symCtx) inlinable(g *ssa.Function) *ssa.Return {
	if g != nil && strings.HasPrefix(g.Name(), "count") {
		return nil // the counting helpers are the symbols of the published forms, whatever they delegate to
	}
	if g == nil || g.Blocks == nil || len(g.Blocks) > 1 || g.Pkg == nil || !strings.HasPrefix(g.Pkg.Pkg.Path(), core.ModPath) {
		return nil
	}
	ret, _ := g.Blocks[0].Instrs[len(g.Blocks[0].Instrs)-1].(*ssa.Return)
	if ret == nil {
		return nil
	}
	for _, in := range g.Blocks[0].Instrs {
		switch x := in.(type) {
		case *ssa.Store:
			if _, local := x.Addr.(*ssa.Alloc); !local {
				return nil
			}
		case *ssa.MapUpdate, *ssa.Go, *ssa.Defer, *ssa.Send:
			return nil
		}
	}
	return ret
}

func (sc *symCtx) bind(g *ssa.Function, call *ssa.Call) {
	if sc.binds == nil {
		sc.binds = map[*ssa.Parameter]ssa.Value{}
	}
	for i, p := range g.Params {
		if i < len(call.Common().Args) {
			sc.binds[p] = call.Common().Args[i]
		}
	}
}

// wholeRecordValue: the local record a is assigned once, as a whole, and afterwards only read field by field.
func wholeRecordValue(a *ssa.Alloc) ssa.Value {
	refs := a.Referrers()
	if refs == nil {
		return nil
	}
	var val ssa.Value
	n := 0
	for _, r := range *refs {
		switch x := r.(type) {
		case *ssa.Store:
			if x.Addr != ssa.Value(a) {
				return nil
			}
			n++
			val = x.Val
		case *ssa.FieldAddr:
			if fr := x.Referrers(); fr != nil {
				for _, u := range *fr {
					if ld, ok := u.(*ssa.UnOp); !ok || ld.Op != token.MUL {
						if _, dbg := u.(*ssa.DebugRef); !dbg {
							return nil
						}
					}
				}
			}
		case *ssa.UnOp, *ssa.DebugRef:
		default:
			return nil
		}
	}
	if n != 1 {
		return nil
	}
	return val
}

// countFieldIndex: the result position of the counting helper a field of a counts record stands for.
var countFieldIndex = map[string]int{"transitions": 0, "transversions": 1, "ag": 2, "ct": 3, "total": 4}

// structField: field i of the struct value v, when v is (a copy of) the record returned by a
// function of the module: named like the i-th result of that function.
func (sc *symCtx) structField(v ssa.Value, field int, depth int) (frac, bool) {
	if depth > 8 {
		return frac{}, false
	}
	switch x := v.(type) {
	case *ssa.Parameter:
		if bv, ok := sc.binds[x]; ok {
			return sc.structField(bv, field, depth+1)
		}
	case *ssa.UnOp:
		if a, ok := x.X.(*ssa.Alloc); ok && x.Op == token.MUL {
			if sv := wholeRecordValue(a); sv != nil {
				return sc.structField(sv, field, depth+1)
			}
		}
	case *ssa.Call:
		if g := x.Common().StaticCallee(); g != nil {
			if st, ok := x.Type().Underlying().(*types.Struct); ok && field < st.NumFields() {
				k := field
				if idx, known := countFieldIndex[st.Field(field).Name()]; known {
					k = idx
				}
				return fracSym(fmt.Sprintf("%s#%d", g.Name(), k)), true
			}
		}
	}
	return frac{}, false
}

// symOf reads v as a rational function; φ-nodes are resolved with pick (which edge to follow).
func (sc *symCtx) symOf(v ssa.Value, pick func(*ssa.Phi) ssa.Value, depth int) (frac, bool) {
	if depth > 60 {
		return frac{}, false
	}
	if sc.leaf != nil {
		if f, ok := sc.leaf(v); ok {
			return f, true
		}
	}
	switch x := v.(type) {
	case *ssa.Const:
		if r := ratOf(x.Value); r != nil {
			return frac{polyConst(r), polyConst(big.NewRat(1, 1))}, true
		}
	case *ssa.Convert:
		return sc.symOf(x.X, pick, depth+1)
	case *ssa.BinOp:
		a, ok1 := sc.symOf(x.X, pick, depth+1)
		b, ok2 := sc.symOf(x.Y, pick, depth+1)
		if !ok1 || !ok2 {
			return frac{}, false
		}
		switch x.Op {
		case token.ADD:
			return a.add(b), true
		case token.SUB:
			return a.sub(b), true
		case token.MUL:
			return a.mul(b), true
		case token.QUO:
			if b.num.isZero() {
				return frac{}, false
			}
			return a.div(b), true
		}
	case *ssa.UnOp:
		switch x.Op {
		case token.SUB:
			a, ok := sc.symOf(x.X, pick, depth+1)
			return a.neg(), ok
		case token.MUL:
			// a field of a local record (a spilled value receiver, a local copy of a returned record)
			if fa, ok := x.X.(*ssa.FieldAddr); ok {
				if a, ok := fa.X.(*ssa.Alloc); ok {
					if sv := wholeRecordValue(a); sv != nil {
						if f, ok := sc.structField(sv, fa.Field, 0); ok {
							return f, true
						}
					}
				}
			}
			if sc.recv == nil {
				return frac{}, false
			}
			// a model field, or an element of the base-frequency vector
			if _, f, base := loadedField(x); base != nil && base == ssa.Value(sc.recv) {
				return fracSym(f), true
			}
			if ia, ok := x.X.(*ssa.IndexAddr); ok {
				if _, f, base := loadedField(ia.X); base != nil && base == ssa.Value(sc.recv) {
					if k, ok := constInt(ia.Index); ok {
						return fracSym(fmt.Sprintf("%s%d", f, k)), true
					}
				}
			}
		}
	case *ssa.Extract:
		if call, ok := x.Tuple.(*ssa.Call); ok {
			if g := call.Common().StaticCallee(); g != nil {
				// a small helper that only combines its arguments (counts.proportions()): read through it
				if ret := sc.inlinable(g); ret != nil && x.Index < len(ret.Results) {
					sc.bind(g, call)
					return sc.symOf(ret.Results[x.Index], pick, depth+1)
				}
				return fracSym(fmt.Sprintf("%s#%d", g.Name(), x.Index)), true
			}
		}
	case *ssa.Parameter:
		if bv, ok := sc.binds[x]; ok {
			return sc.symOf(bv, pick, depth+1)
		}
	case *ssa.Field:
		return sc.structField(x.X, x.Field, 0)
	case *ssa.Call:
		cc := x.Common()
		if g := cc.StaticCallee(); g != nil && !isPkgFunc(cc, "math", "Log") && !isPkgFunc(cc, "math", "Pow") && !isPkgFunc(cc, "math", "Exp") {
			if ret := sc.inlinable(g); ret != nil && len(ret.Results) == 1 {
				sc.bind(g, x)
				return sc.symOf(ret.Results[0], pick, depth+1)
			}
		}
		switch {
		case isPkgFunc(cc, "math", "Log"):
			a, ok := sc.symOf(cc.Args[0], pick, depth+1)
			if !ok {
				return frac{}, false
			}
			return sc.apply("log", a), true
		case isPkgFunc(cc, "math", "Exp"):
			a, ok := sc.symOf(cc.Args[0], pick, depth+1)
			if !ok {
				return frac{}, false
			}
			return sc.apply("exp", a), true
		case isPkgFunc(cc, "math", "Pow"):
			a, ok1 := sc.symOf(cc.Args[0], pick, depth+1)
			b, ok2 := sc.symOf(cc.Args[1], pick, depth+1)
			if !ok1 || !ok2 {
				return frac{}, false
			}
			return sc.apply("pow", a, b), true
		}
	case *ssa.Phi:
		if e := pick(x); e != nil {
			return sc.symOf(e, pick, depth+1)
		}
	}
	return frac{}, false
}

func (c *Ctx) checkEstimatorFormulas(rule string) {
	L := c.L
	L.Rule(rule, "the value returned by the Distance method of JC69, K2P, F81, F84 and TN93, read as a rational function of the observed proportions, the model fields and uninterpreted ln/pow applications, is identical (as a polynomial identity, in both the plain and the gamma-corrected branch) to the published estimator written with L(x) = ln x, resp. α(1 − x^(−1/α))")
	type ref func(sc *symCtx, Lf func(frac) frac) frac
	one, two, three, four := fracConst(1, 1), fracConst(2, 1), fracConst(3, 1), fracConst(4, 1)
	refs := map[string]ref{
		"JCModel": func(sc *symCtx, Lf func(frac) frac) frac {
			p := fracSym("countDiffs#0").div(fracSym("countDiffs#1"))
			return three.div(four).neg().mul(Lf(one.sub(four.mul(p).div(three))))
		},
		"K2PModel": func(sc *symCtx, Lf func(frac) frac) frac {
			P := fracSym("countMutations#0").div(fracSym("countMutations#4"))
			Q := fracSym("countMutations#1").div(fracSym("countMutations#4"))
			return one.div(two).neg().mul(Lf(one.sub(two.mul(P)).sub(Q))).sub(one.div(four).mul(Lf(one.sub(two.mul(Q)))))
		},
		"F81Model": func(sc *symCtx, Lf func(frac) frac) frac {
			p := fracSym("countDiffs#0").div(fracSym("countDiffs#1"))
			B := fracSym("b1")
			return B.neg().mul(Lf(one.sub(p.div(B))))
		},
		"F84Model": func(sc *symCtx, Lf func(frac) frac) frac {
			P := fracSym("countMutations#0").div(fracSym("countMutations#4"))
			Q := fracSym("countMutations#1").div(fracSym("countMutations#4"))
			A, B, C := fracSym("a"), fracSym("b"), fracSym("c")
			t1 := two.mul(A).neg().mul(Lf(one.sub(P.div(two.mul(A))).sub(A.sub(B).mul(Q).div(two.mul(A).mul(C)))))
			t2 := two.mul(A.sub(B).sub(C)).mul(Lf(one.sub(Q.div(two.mul(C)))))
			return t1.add(t2)
		},
		"TN93Model": func(sc *symCtx, Lf func(frac) frac) frac {
			tot := fracSym("countMutations#4")
			Q := fracSym("countMutations#1").div(tot)
			P1 := fracSym("countMutations#2").div(tot)
			P2 := fracSym("countMutations#3").div(tot)
			pA, pC, pG, pT := fracSym("pi0"), fracSym("pi1"), fracSym("pi2"), fracSym("pi3")
			pR, pY := pA.add(pG), pC.add(pT)
			ag, ct := pA.mul(pG), pC.mul(pT)
			t1 := two.mul(ag).div(pR).neg().mul(Lf(one.sub(pR.mul(P1).div(two.mul(ag))).sub(Q.div(two.mul(pR)))))
			t2 := two.mul(ct).div(pY).neg().mul(Lf(one.sub(pY.mul(P2).div(two.mul(ct))).sub(Q.div(two.mul(pY)))))
			t3 := two.mul(pR.mul(pY).sub(ag.mul(pY).div(pR)).sub(ct.mul(pR).div(pY))).neg().mul(Lf(one.sub(Q.div(two.mul(pR).mul(pY)))))
			return t1.add(t2).add(t3)
		},
	}
	for _, m := range []string{"JCModel", "K2PModel", "F81Model", "F84Model", "TN93Model"} {
		r := c.fn("distance/dna", "*"+m, "Distance")
		if !r.ok() {
			continue
		}
		fn := r.F
		bf := computeBranchFacts(fn)
		// the load(s) of the gamma switch
		var gammaLoads []ssa.Value
		allInstrs(fn, func(in ssa.Instruction) {
			if u, ok := in.(*ssa.UnOp); ok && u.Op == token.MUL {
				if _, f, base := loadedField(u); base != nil && f == "gamma" && base == ssa.Value(fn.Params[0]) {
					gammaLoads = append(gammaLoads, u)
				}
			}
		})
		for _, gamma := range []bool{false, true} {
			what := "plain estimator"
			if gamma {
				what = "gamma-corrected estimator"
			}
			sc := &symCtx{recv: fn.Params[0]}
			pick := func(p *ssa.Phi) ssa.Value {
				var chosen ssa.Value
				n := 0
				for i, e := range p.Edges {
					pred := p.Block().Preds[i]
					for _, g := range gammaLoads {
						if bf.knownOnEdge(pred, p.Block(), g, gamma) {
							chosen = e
							n++
							break
						}
					}
				}
				if n == 1 {
					return chosen
				}
				return nil
			}
			// the returned estimator: the non-constant value of the successful returns
			var got *frac
			okRead := true
			allInstrs(fn, func(in ssa.Instruction) {
				ret, ok := in.(*ssa.Return)
				if !ok || len(ret.Results) == 0 {
					return
				}
				v := ret.Results[0]
				if _, isK := v.(*ssa.Const); isK {
					return
				}
				// a return that belongs to the other mode (`if !m.gamma { return … }; return …`)
				for _, g := range gammaLoads {
					if bf.knownAt(ret.Block(), g, !gamma) {
						return
					}
				}
				// the clamp of non-positive values merges the constant 0 with the estimator
				for depth := 0; depth < 3; depth++ {
					phi, isPhi := v.(*ssa.Phi)
					if !isPhi {
						break
					}
					var rest []ssa.Value
					for _, e := range phi.Edges {
						if k, isK := e.(*ssa.Const); isK {
							if r := ratOf(k.Value); r != nil && r.Sign() == 0 {
								continue
							}
						}
						dup := false
						for _, x := range rest {
							if x == e {
								dup = true
							}
						}
						if !dup {
							rest = append(rest, e)
						}
					}
					if len(rest) != 1 || len(rest) == len(phi.Edges) {
						break
					}
					v = rest[0]
				}
				f, ok := sc.symOf(v, pick, 0)
				if !ok {
					okRead = false
					return
				}
				if got != nil && !got.eq(f) {
					okRead = false
					return
				}
				got = &f
			})
			if got == nil || !okRead {
				L.Unknown(rule, r.label, what, c.P.Pos(fn.Pos()), "the returned value could not be read as a rational function of proportions, model fields and ln/pow applications")
				continue
			}
			nGotAtoms := len(sc.atoms)
			alpha := fracSym("alpha")
			Lf := func(x frac) frac {
				if !gamma {
					return sc.apply("log", x)
				}
				return alpha.mul(fracConst(1, 1).sub(sc.apply("pow", x, fracConst(-1, 1).div(alpha))))
			}
			want := refs[m](sc, Lf)
			same := got.eq(want)
			if !same {
				// symbols the published form does not know (counters returned in a record, …): the
				// expression cannot be compared, which is different from being wrong
				known := map[string]bool{"": true, "alpha": true, "b1": true, "a": true, "b": true, "c": true,
					"pi0": true, "pi1": true, "pi2": true, "pi3": true, "countDiffs#0": true, "countDiffs#1": true,
					"countMutations#0": true, "countMutations#1": true, "countMutations#2": true, "countMutations#3": true, "countMutations#4": true}
				for _, at := range sc.atoms {
					known[at.name] = true
				}
				foreign := ""
				var gotPolys []poly
				gotPolys = append(gotPolys, got.num, got.den)
				for _, at := range sc.atoms[:nGotAtoms] {
					for _, a := range at.args {
						gotPolys = append(gotPolys, a.num, a.den)
					}
				}
				for _, q := range gotPolys {
					for mono := range q {
						for _, v := range strings.Split(mono, "*") {
							if v != "" && !known[v] {
								foreign = v
							}
						}
					}
				}
				if foreign != "" {
					L.Unknown(rule, r.label, what, c.P.Pos(fn.Pos()), "the returned expression uses a quantity the published form does not name ("+foreign+"): the proportions are no longer the results of the counting helper divided by its total")
					continue
				}
			}
			var names []string
			for _, at := range sc.atoms {
				names = append(names, at.fn)
			}
			L.Check(same, rule, r.label, what, c.P.Pos(fn.Pos()),
				fmt.Sprintf("identical to the published form as a polynomial identity (%d ln/pow applications: %s)", len(sc.atoms), strings.Join(names, ",")),
				"the returned expression is not the published estimator of this model: a constant, a proportion or the argument of a logarithm/power differs (difference of the two rational functions is not the zero polynomial)")
		}
	}
	// the composite frequencies of F84, stored by InitModel:  A = πAπG/πR + πCπT/πY,  B = πAπG + πCπT,  C = πR·πY
	if r := c.fn("distance/dna", "*F84Model", "InitModel"); r.ok() {
		fn := r.F
		sc := &symCtx{recv: fn.Params[0]}
		pA, pC, pG, pT := fracSym("pi0"), fracSym("pi1"), fracSym("pi2"), fracSym("pi3")
		want := map[string]frac{
			"a": pA.mul(pG).div(pA.add(pG)).add(pC.mul(pT).div(pC.add(pT))),
			"b": pA.mul(pG).add(pC.mul(pT)),
			"c": pA.add(pG).mul(pC.add(pT)),
		}
		for _, f := range []string{"a", "b", "c"} {
			sts := storesToField(fn, "F84Model", f)
			ok := len(sts) == 1
			if ok {
				got, okRead := sc.symOf(sts[0].Val, func(*ssa.Phi) ssa.Value { return nil }, 0)
				ok = okRead && got.eq(want[f])
			}
			L.Check(ok, rule, r.label, "composite frequency "+f, c.P.Pos(fn.Pos()), "one store, equal to its definition in the base frequencies as a rational function",
				"the composite frequency "+f+" of the F84 estimator is not computed from the base frequencies as published (A = πAπG/πR + πCπT/πY, B = πAπG + πCπT, C = πRπY)")
		}
	}
	L.Floor(rule, 6, "five corrected models, two branches each, three composite frequencies (floor = half)")
}
