package rules

import (
	"fmt"
	"go/token"
	"strings"

	"golang.org/x/tools/go/ssa"
)

// E8 — per-item freshness of loop-carried variables.

// headerPhiDeps: loop-header φ-nodes (of any loop of fn) that v depends on
// through arithmetic, conversions and non-header φ merges.
func headerPhiDeps(fn *ssa.Function, v ssa.Value) []*ssa.Phi {
	heads := map[*ssa.BasicBlock]bool{}
	for _, lp := range naturalLoops(fn) {
		heads[lp.Head] = true
	}
	seen := map[ssa.Value]bool{}
	var out []*ssa.Phi
	var rec func(v ssa.Value)
	rec = func(v ssa.Value) {
		if v == nil || seen[v] {
			return
		}
		seen[v] = true
		switch x := v.(type) {
		case *ssa.Phi:
			if heads[x.Block()] {
				out = append(out, x)
				return
			}
			for _, e := range x.Edges {
				rec(e)
			}
		case *ssa.BinOp:
			rec(x.X)
			rec(x.Y)
		case *ssa.UnOp:
			if x.Op != token.MUL {
				rec(x.X)
			}
		case *ssa.Convert:
			rec(x.X)
		case *ssa.ChangeType:
			rec(x.X)
		}
	}
	rec(v)
	return out
}

// checkCallArgsFresh: the given arguments of every call to callee inside fn do
// not depend on a loop-header φ (a value carried over from a previous item).
func (c *Ctx) checkCallArgsFresh(rule string, r *fnRef, calleeName string, argIdx []int, argNames []string) int {
	L := c.L
	if !r.ok() {
		return 0
	}
	fn := r.F
	n := 0
	allInstrs(fn, func(in ssa.Instruction) {
		cc := callOf(in)
		if cc == nil {
			return
		}
		f := cc.StaticCallee()
		if f == nil || f.Name() != calleeName {
			return
		}
		for k, i := range argIdx {
			if i >= len(cc.Args) {
				continue
			}
			n++
			deps := headerPhiDeps(fn, cc.Args[i])
			name := "argument " + argNames[k] + " of " + calleeName
			if len(deps) == 0 {
				L.OK(rule, r.label, name, c.P.Pos(in.Pos()), "computed from values parsed in the current iteration or constants on every path")
			} else {
				var ds []string
				for _, d := range deps {
					ds = append(ds, d.Comment)
				}
				L.Bad(rule, r.label, name, c.P.Pos(in.Pos()), "on some path this argument is the value left over from a previous item (loop-carried variable "+strings.Join(dedupe(ds), ",")+"): an item that does not set it inherits the previous item's value")
			}
		}
	})
	return n
}

// checkBestRecordReplaced: in a replace-the-best branch (`if score > best { … }`
// inside a loop, where best is a loop-carried variable set to score in the
// branch), every loop-carried variable updated in the branch gets a value that
// does not depend on its own previous value.
func (c *Ctx) checkBestRecordReplaced(rule string, r *fnRef) int {
	L := c.L
	if !r.ok() {
		return 0
	}
	fn := r.F
	n := 0
	loops := naturalLoops(fn)
	for _, b := range fn.Blocks {
		ifi, ok := b.Instrs[len(b.Instrs)-1].(*ssa.If)
		if !ok {
			continue
		}
		bo, ok := ifi.Cond.(*ssa.BinOp)
		if !ok || (bo.Op != token.GTR && bo.Op != token.LSS) || !isFloatValue(bo.X) {
			continue
		}
		lp := innermostLoopOf(loops, b)
		if lp == nil {
			continue
		}
		var best *ssa.Phi
		var score ssa.Value
		for _, pair := range [][2]ssa.Value{{bo.X, bo.Y}, {bo.Y, bo.X}} {
			if p, ok := pair[1].(*ssa.Phi); ok && p.Block() == lp.Head {
				best, score = p, pair[0]
			}
		}
		if best == nil {
			continue
		}
		region := branchRegion(fn, b, 0)
		// the branch must replace best by score (same call / value, go/ssa has no CSE: compare callee)
		replaces := false
		sameScore := func(v ssa.Value) bool {
			if v == score {
				return true
			}
			c1, ok1 := v.(*ssa.Call)
			c2, ok2 := score.(*ssa.Call)
			if ok1 && ok2 {
				m1, m2 := c1.Common().Method, c2.Common().Method
				if m1 != nil && m2 != nil && m1 == m2 && c1.Common().Value == c2.Common().Value {
					return true
				}
				if f1, f2 := c1.Common().StaticCallee(), c2.Common().StaticCallee(); f1 != nil && f1 == f2 {
					return true
				}
			}
			return false
		}
		// header φs and their in-loop merges
		for _, in := range lp.Head.Instrs {
			p, ok := in.(*ssa.Phi)
			if !ok {
				continue
			}
			for i, e := range p.Edges {
				if !lp.Blocks[lp.Head.Preds[i]] {
					continue
				}
				// walk merges down to the values produced inside the region
				seen := map[ssa.Value]bool{}
				var walk func(v ssa.Value, from *ssa.BasicBlock)
				walk = func(v ssa.Value, from *ssa.BasicBlock) {
					if seen[v] {
						return
					}
					seen[v] = true
					if q, ok := v.(*ssa.Phi); ok && q.Block() != lp.Head && lp.Blocks[q.Block()] && !region[q.Block()] {
						for k, qe := range q.Edges {
							walk(qe, q.Block().Preds[k])
						}
						return
					}
					if from == nil || !region[from] {
						return
					}
					// v is the value of variable p at the end of the replace-best branch
					if p == best {
						if sameScore(v) {
							replaces = true
						}
						return
					}
					if v == ssa.Value(p) {
						return // not updated in the branch
					}
					if vi, isInstr := v.(ssa.Instruction); isInstr && !region[vi.Block()] {
						return // produced before the branch (a loop counter advanced in the header), not by it
					}
					n++
					name := "best-record field " + p.Comment
					self := false
					for _, d := range headerPhiDeps(fn, v) {
						if d == p {
							self = true
						}
					}
					// counting loops inside the branch: φ(init, +1) with init depending on p
					if q, ok := v.(*ssa.Phi); ok {
						for _, qe := range q.Edges {
							for _, d := range headerPhiDeps(fn, qe) {
								if d == p {
									self = true
								}
							}
							if q2, ok := qe.(*ssa.Phi); ok {
								for _, qe2 := range q2.Edges {
									if qe2 == ssa.Value(p) {
										self = true
									}
								}
							}
						}
					}
					if self {
						L.Bad(rule, r.label, name, c.P.Pos(ifi.Cond.Pos()), "when a better candidate is found this field is computed from its own previous value instead of from the new candidate alone: it accumulates over successive improvements")
					} else {
						L.OK(rule, r.label, name, c.P.Pos(ifi.Cond.Pos()), "replaced by a value computed from the new candidate only")
					}
				}
				walk(e, lp.Head.Preds[i])
			}
		}
		_ = replaces
	}
	_ = fmt.Sprint
	return n
}
