package core

import (
	"crypto/sha1"
	"encoding/json"
	"fmt"
	"os"
	"path/filepath"
	"sort"
	"strings"
	"time"
)

type Status string

const (
	Discharged Status = "discharged"
	Violated   Status = "violated"
	Undecided  Status = "undecided"
)

// Obligation is one instance of a rule on one construct of the analysed tree.
// Key = rule | function | construct ; never contains a line number.
type Obligation struct {
	Rule       string `json:"rule"`
	Func       string `json:"func"`
	Construct  string `json:"construct"`
	Status     Status `json:"status"`
	Pos        string `json:"pos"`
	Detail     string `json:"detail"`
	NonTrivial bool   `json:"nontrivial"`
}

func (o *Obligation) Key() string { return o.Rule + " | " + o.Func + " | " + o.Construct }

type Floor struct {
	Rule string
	Min  int
	Why  string
}

// Ledger collects the obligations of one property run.
type Ledger struct {
	Property string
	Tier     string
	Seed     int64
	Start    time.Time
	Obs      []*Obligation
	Floors   []Floor
	Rules    map[string]string // rule -> rule text
	Notes    []string          // what was analysed
	Assume   []string
	Trusted  []string
	Broken   []string // checker-broken conditions (controls that did not fire)
	Counts   map[string]int
	seen     map[string]int
	waived   map[string]string
}

func NewLedger(prop, tier string, seed int64) *Ledger {
	return &Ledger{Property: prop, Tier: tier, Seed: seed, Start: time.Now(),
		Rules: map[string]string{}, Counts: map[string]int{}, seen: map[string]int{}}
}

func (l *Ledger) Rule(name, text string) { l.Rules[name] = text }

func (l *Ledger) add(rule, fn, construct string, st Status, pos, detail string, nt bool) *Obligation {
	o := &Obligation{Rule: rule, Func: fn, Construct: construct, Status: st, Pos: pos, Detail: detail, NonTrivial: nt}
	k := o.Key()
	l.seen[k]++
	if n := l.seen[k]; n > 1 {
		o.Construct = fmt.Sprintf("%s #%d", construct, n)
	}
	l.Obs = append(l.Obs, o)
	return o
}

func (l *Ledger) OK(rule, fn, construct, pos, detail string) {
	l.add(rule, fn, construct, Discharged, pos, detail, true)
}

// Trivial records a discharged obligation that needed no derivation step.
func (l *Ledger) Trivial(rule, fn, construct, pos, detail string) {
	l.add(rule, fn, construct, Discharged, pos, detail, false)
}

func (l *Ledger) Bad(rule, fn, construct, pos, detail string) {
	l.add(rule, fn, construct, Violated, pos, detail, true)
}

func (l *Ledger) Unknown(rule, fn, construct, pos, detail string) {
	l.add(rule, fn, construct, Undecided, pos, detail, true)
}

// Check is shorthand: ok → discharged, else violated.
func (l *Ledger) Check(ok bool, rule, fn, construct, pos, okDetail, badDetail string) {
	if ok {
		l.OK(rule, fn, construct, pos, okDetail)
	} else {
		l.Bad(rule, fn, construct, pos, badDetail)
	}
}

// MergeViewRun folds the ledger of a second pass over the inlined views into this one. The unit is
// the group of obligations of one rule on one function. A group of the first pass that is not
// fully discharged is replaced by the group of the second pass when that one is fully discharged
// and has at least as many obligations (a rule that merely stops recognising a construct must not
// count as a proof); a group that exists only in the second pass is added when it is fully
// discharged (it can only help a floor). Everything else stays as the first pass found it.
// Sound because the inlined view is the same program (calls to private helpers replaced by their
// bodies): a rule that holds on it holds for the code.
func (l *Ledger) MergeViewRun(v *Ledger, isKnown func(*Obligation) bool) (replaced, added int) {
	type key struct{ rule, fn string }
	group := func(obs []*Obligation) (map[key][]*Obligation, []key) {
		m := map[key][]*Obligation{}
		var order []key
		for _, o := range obs {
			k := key{o.Rule, o.Func}
			if _, ok := m[k]; !ok {
				order = append(order, k)
			}
			m[k] = append(m[k], o)
		}
		return m, order
	}
	// "clean": every obligation discharged — a violation that is a recorded known finding does not
	// make a group unclean (it is reported as such either way)
	clean := func(g []*Obligation) bool {
		for _, o := range g {
			if o.Status != Discharged && !(isKnown != nil && isKnown(o)) {
				return false
			}
		}
		return len(g) > 0
	}
	mine, order := group(l.Obs)
	theirs, vorder := group(v.Obs)
	cnt := map[string]int{}
	for _, o := range l.Obs {
		cnt[o.Rule]++
	}
	short := map[string]bool{}
	for _, f := range l.Floors {
		if cnt[f.Rule] < f.Min {
			short[f.Rule] = true
		}
	}
	viewFuncs := map[string]bool{}
	for _, o := range v.Obs {
		viewFuncs[o.Func] = true
	}
	var out []*Obligation
	// functions for which some open group of the first pass is accepted on the strength of the view:
	// what the other rules find on that same view counts as well
	acceptedOnView := map[string]bool{}
	for _, k := range order {
		g := mine[k]
		// a function literal that the view has expanded into its enclosing function no longer exists
		// there: its obligations are those of the enclosing function's group
		if !clean(g) && !viewFuncs[k.fn] {
			if i := strings.LastIndex(k.fn, "$"); i > 0 {
				if t := theirs[key{k.rule, k.fn[:i]}]; clean(t) {
					replaced++
					continue // the parent's (clean) group is merged under its own key
				}
			}
		}
		if !clean(g) {
			if t := theirs[k]; clean(t) && len(t) >= len(g) {
				for _, o := range t {
					o.Detail += " [decided on the inlined view: calls to private helpers of the package expanded in place]"
				}
				out = append(out, t...)
				replaced++
				acceptedOnView[k.fn] = true
				continue
			}
			// neither pass discharges the group: report the more specific of the two — a violation
			// located on the inlined view rather than a "construct not found" on the function as written
			hasViol := func(x []*Obligation) bool {
				for _, o := range x {
					if o.Status == Violated {
						return true
					}
				}
				return false
			}
			if t := theirs[k]; !hasViol(g) && hasViol(t) {
				for _, o := range t {
					if o.Status != Discharged {
						o.Detail += " [located on the inlined view: calls to private helpers of the package expanded in place]"
					}
				}
				out = append(out, t...)
				continue
			}
		}
		// the group is discharged but its rule is below its floor: the view may show the rest
		if clean(g) && short[k.rule] {
			if t := theirs[k]; clean(t) && len(t) > len(g) {
				for _, o := range t {
					o.Detail += " [decided on the inlined view: calls to private helpers of the package expanded in place]"
				}
				out = append(out, t...)
				replaced++
				continue
			}
		}
		out = append(out, g...)
	}
	for _, k := range vorder {
		if _, ok := mine[k]; ok {
			continue
		}
		t := theirs[k]
		if clean(t) {
			for _, o := range t {
				o.Detail += " [found on the inlined view only]"
			}
			out = append(out, t...)
			added++
			continue
		}
		// the rule saw nothing of the kind in the functions as written (it is below its floor there)
		// and finds a violation on the view: that is where the construct lives now
		if short[k.rule] || acceptedOnView[k.fn] {
			for _, o := range t {
				o.Detail += " [found on the inlined view only]"
			}
			out = append(out, t...)
		}
	}
	l.Obs = out
	for _, n := range v.Notes {
		if strings.HasPrefix(n, "inlined view of") || strings.HasPrefix(n, "no inlined view") {
			l.Notes = append(l.Notes, n)
		}
	}
	return
}

// Open reports whether any obligation is not discharged.
func (l *Ledger) Open() bool {
	for _, o := range l.Obs {
		if o.Status != Discharged {
			return true
		}
	}
	return false
}

func (l *Ledger) Floor(rule string, min int, why string) {
	if l.waived[rule] != "" {
		return
	}
	l.Floors = append(l.Floors, Floor{rule, min, why})
}

// Waive declares that a rule cannot decide anything on this tree for a stated structural reason
// (e.g. the table it evaluates is no longer a literal but is built by a function): its floor is
// dropped and the reason is recorded among the notes. The clause is then *not decided*; this is
// reserved for constructs the engine cannot evaluate, never for constructs that are absent.
func (l *Ledger) Waive(rule, why string) {
	if l.waived == nil {
		l.waived = map[string]string{}
	}
	l.waived[rule] = why
	var fs []Floor
	for _, f := range l.Floors {
		if f.Rule != rule {
			fs = append(fs, f)
		}
	}
	l.Floors = fs
	l.Note("rule %s not decided on this tree: %s", rule, why)
}

func (l *Ledger) Note(format string, a ...interface{}) {
	l.Notes = append(l.Notes, fmt.Sprintf(format, a...))
}
func (l *Ledger) Assumes(s string) { l.Assume = append(l.Assume, s) }
func (l *Ledger) Trusts(s string)  { l.Trusted = append(l.Trusted, s) }

// ControlMustFire records the outcome of a positive control for a
// zero-expected rule: if the rule did not fire on the control program the
// checker itself is broken.
func (l *Ledger) ControlMustFire(rule string, fired bool, what string) {
	if !fired {
		l.Broken = append(l.Broken, fmt.Sprintf("control for rule %q did not fire (%s)", rule, what))
	} else {
		l.Note("control for rule %s fired as required (%s)", rule, what)
	}
}

// ---------------------------------------------------------------------------
// known findings

type Finding struct {
	Property string
	Key      string // obligation key (exact)
	What     string
}

type KnownFindings struct {
	Findings []Finding
	Fixed    []string
}

// ReadFindings parses known_findings.txt:
//
//	finding: property=C11 key=<rule | func | construct> :: <what fails>
//	fixed: property=C01 <commit> <what failed>
func ReadFindings(path string) (*KnownFindings, error) {
	kf := &KnownFindings{}
	b, err := os.ReadFile(path)
	if err != nil {
		if os.IsNotExist(err) {
			return kf, nil
		}
		return nil, err
	}
	for _, ln := range strings.Split(string(b), "\n") {
		ln = strings.TrimSpace(ln)
		if ln == "" || strings.HasPrefix(ln, "#") {
			continue
		}
		switch {
		case strings.HasPrefix(ln, "fixed:"):
			kf.Fixed = append(kf.Fixed, ln)
		case strings.HasPrefix(ln, "finding:"):
			rest := strings.TrimSpace(strings.TrimPrefix(ln, "finding:"))
			parts := strings.SplitN(rest, " :: ", 2)
			what := ""
			if len(parts) == 2 {
				what = parts[1]
			}
			head := parts[0]
			if !strings.HasPrefix(head, "property=") {
				return nil, fmt.Errorf("bad finding line: %s", ln)
			}
			sp := strings.SplitN(head, " key=", 2)
			if len(sp) != 2 {
				return nil, fmt.Errorf("bad finding line (no key=): %s", ln)
			}
			kf.Findings = append(kf.Findings, Finding{
				Property: strings.TrimPrefix(sp[0], "property="),
				Key:      strings.TrimSpace(sp[1]), What: what})
		default:
			return nil, fmt.Errorf("bad line in known findings: %s", ln)
		}
	}
	return kf, nil
}

func (kf *KnownFindings) Match(prop, key string) *Finding {
	for i := range kf.Findings {
		f := &kf.Findings[i]
		if f.Property == prop && f.Key == key {
			return f
		}
	}
	return nil
}

// ---------------------------------------------------------------------------
// finishing a run: floors, verdict lines, reports, evidence

type Report struct {
	Property  string      `json:"property"`
	Kind      string      `json:"kind"` // violated | undecided | floor | internal
	Key       string      `json:"key"`
	Oblig     *Obligation `json:"obligation,omitempty"`
	RuleText  string      `json:"rule_text"`
	Tier      string      `json:"tier"`
	RepoDir   string      `json:"repo_dir"`
	Generated string      `json:"generated"`
}

func short(s string) string {
	h := sha1.Sum([]byte(s))
	return fmt.Sprintf("%x", h[:5])
}

// Finish evaluates floors, writes reports and the evidence file, prints the
// verdict lines and returns the process exit code.
// onlyKey != "" restricts the verdict to one obligation (replay mode).
func (l *Ledger) Finish(verifDir, repoDir string, kf *KnownFindings, onlyKey string, explanation string) int {
	byRule := map[string]int{}
	for _, o := range l.Obs {
		byRule[o.Rule]++
	}
	for _, f := range l.Floors {
		if byRule[f.Rule] < f.Min {
			l.add("floor", f.Rule, fmt.Sprintf("at least %d instances", f.Min), Violated, "-",
				fmt.Sprintf("rule %s matched %d instances, floor is %d (%s): the rule no longer sees the constructs confirmed by hand", f.Rule, byRule[f.Rule], f.Min, f.Why), true)
		} else {
			l.add("floor", f.Rule, fmt.Sprintf("at least %d instances", f.Min), Discharged, "-",
				fmt.Sprintf("%d instances >= floor %d", byRule[f.Rule], f.Min), false)
		}
	}
	sort.SliceStable(l.Obs, func(i, j int) bool { return l.Obs[i].Key() < l.Obs[j].Key() })

	repDir := filepath.Join(verifDir, "reports")
	os.MkdirAll(repDir, 0o755)
	if onlyKey == "" {
		// remove stale reports of this property
		if ents, err := os.ReadDir(repDir); err == nil {
			for _, e := range ents {
				if strings.HasPrefix(e.Name(), l.Property+"-") {
					os.Remove(filepath.Join(repDir, e.Name()))
				}
			}
		}
	}

	nViol, nKnown, nDis, nNT := 0, 0, 0, 0
	usedFinding := map[string]bool{}
	var lines []string
	distinctNT := map[string]bool{}
	for _, o := range l.Obs {
		if onlyKey != "" && o.Key() != onlyKey {
			continue
		}
		if o.Status == Discharged {
			nDis++
			if o.NonTrivial {
				distinctNT[o.Key()] = true
			}
			continue
		}
		if f := kf.Match(l.Property, o.Key()); f != nil && o.Status == Violated {
			nKnown++
			usedFinding[f.Key] = true
			distinctNT[o.Key()] = true
			lines = append(lines, fmt.Sprintf("KNOWN-FINDING: property=%s %s :: %s (%s)", l.Property, o.Key(), f.What, o.Pos))
			continue
		}
		nViol++
		rp := filepath.Join(repDir, fmt.Sprintf("%s-%s.json", l.Property, short(o.Key())))
		rep := Report{Property: l.Property, Kind: string(o.Status), Key: o.Key(), Oblig: o,
			RuleText: l.Rules[o.Rule], Tier: l.Tier, RepoDir: repoDir, Generated: time.Now().Format(time.RFC3339)}
		b, _ := json.MarshalIndent(rep, "", " ")
		os.WriteFile(rp, b, 0o644)
		lines = append(lines, fmt.Sprintf("VIOLATION property=%s replay=%s kind=%s key=[%s] at %s: %s", l.Property, rp, o.Status, o.Key(), o.Pos, o.Detail))
	}
	nNT = len(distinctNT)

	// evidence
	if onlyKey == "" {
		l.writeEvidence(verifDir, byRule, nDis, nViol, nKnown, nNT, explanation)
	}
	for _, s := range lines {
		fmt.Println(s)
	}
	if len(l.Broken) > 0 {
		for _, b := range l.Broken {
			fmt.Printf("CHECKER-BROKEN property=%s %s\n", l.Property, b)
		}
		return 2
	}
	total := 0
	for _, o := range l.Obs {
		if onlyKey == "" || o.Key() == onlyKey {
			total++
		}
	}
	if onlyKey != "" && total == 0 {
		fmt.Printf("replay: obligation %q no longer exists on this tree\n", onlyKey)
		return 3
	}
	fmt.Printf("%s %s: %d obligations, %d discharged, %d known findings, %d violations (%.1fs)\n",
		l.Property, l.Tier, total, nDis, nKnown, nViol, time.Since(l.Start).Seconds())
	if nViol > 0 {
		return 1
	}
	return 0
}

func (l *Ledger) writeEvidence(verifDir string, byRule map[string]int, nDis, nViol, nKnown, nNT int, explanation string) {
	type sample struct {
		Key    string `json:"obligation"`
		Status Status `json:"status"`
		Pos    string `json:"pos"`
		Detail string `json:"facts"`
	}
	var samples []sample
	perRule := map[string]int{}
	for _, o := range l.Obs {
		// up to 3 samples per rule, non-trivial first; all non-discharged ones
		if o.Status != Discharged || (o.NonTrivial && perRule[o.Rule] < 3) {
			samples = append(samples, sample{o.Key(), o.Status, o.Pos, o.Detail})
			perRule[o.Rule]++
		}
	}
	type ruleStat struct {
		Rule        string `json:"rule"`
		Text        string `json:"text"`
		Obligations int    `json:"obligations"`
		Discharged  int    `json:"discharged"`
	}
	var rs []ruleStat
	disBy := map[string]int{}
	for _, o := range l.Obs {
		if o.Status == Discharged {
			disBy[o.Rule]++
		}
	}
	var names []string
	for r := range byRule {
		names = append(names, r)
	}
	if _, ok := byRule["floor"]; !ok {
		n := 0
		for _, o := range l.Obs {
			if o.Rule == "floor" {
				n++
			}
		}
		if n > 0 {
			byRule["floor"] = n
			names = append(names, "floor")
		}
	}
	sort.Strings(names)
	var ruleTexts []string
	for _, r := range names {
		rs = append(rs, ruleStat{r, l.Rules[r], byRule[r], disBy[r]})
		if l.Rules[r] != "" {
			ruleTexts = append(ruleTexts, r+": "+l.Rules[r])
		}
	}
	cov := map[string]interface{}{
		"explanation":         explanation,
		"obligations":         len(l.Obs),
		"discharged":          nDis,
		"known_findings":      nKnown,
		"evaluations":         len(l.Obs),
		"distinct_nontrivial": nNT,
		"rule": "one evaluation = one rule instance (obligation) found by scanning the resolved program of /repo; " +
			"non-trivial = discharging or refuting it needed a derivation step (a derived bound, a path/dominance argument, a table row compared, a call-graph search), " +
			"distinct = distinct obligation keys. Rules: " + strings.Join(ruleTexts, " || "),
		"samples":      samples,
		"by_rule":      rs,
		"analysed":     l.Notes,
		"trusted_base": l.Trusted,
		"checker_cmd":  fmt.Sprintf("./check.sh %s %s", l.Property, l.Tier),
		"exhaustive":   true,
	}
	for k, v := range l.Counts {
		cov[k] = v
	}
	if l.Assume == nil {
		l.Assume = []string{}
	}
	if l.Trusted == nil {
		l.Trusted = []string{}
	}
	cov["trusted_base"] = l.Trusted
	ev := map[string]interface{}{
		"property_id": l.Property,
		"tier":        l.Tier,
		"seed":        l.Seed,
		"level":       "other",
		"coverage":    cov,
		"assumptions": l.Assume,
		"wall_s":      time.Since(l.Start).Seconds(),
		"violations":  nViol,
	}
	os.MkdirAll(filepath.Join(verifDir, "evidence"), 0o755)
	b, _ := json.MarshalIndent(ev, "", " ")
	os.WriteFile(filepath.Join(verifDir, "evidence", l.Property+".json"), append(b, '\n'), 0o644)
}
