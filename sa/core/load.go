// Package core holds the loader, the obligation ledger, the known-findings
// reader and the evidence/report writers shared by all rules.
package core

import (
	"fmt"
	"go/ast"
	"go/token"
	"go/types"
	"os"
	"sort"
	"strings"

	"golang.org/x/tools/go/packages"
	"golang.org/x/tools/go/ssa"
	"golang.org/x/tools/go/ssa/ssautil"
)

const ModPath = "github.com/evolbioinfo/goalign"

// Program is the resolved view of one Go module: syntax, types and SSA.
type Program struct {
	Dir     string
	Fset    *token.FileSet
	Pkgs    []*packages.Package          // module packages only, sorted by path
	ByPath  map[string]*packages.Package // all loaded packages (incl. deps)
	SSA     *ssa.Program
	SSAPkgs map[string]*ssa.Package // module packages
	AllFns  map[*ssa.Function]bool  // every function reachable in the SSA program (incl. deps)
	ModPath string
	// Looked: every function a rule resolved by name (the anchors); the inlined views never
	// expand a call to one of them, so that a rule that looks for "the call of reindex" or
	// "the counter a Distance method calls" still finds it.
	Looked map[*ssa.Function]bool
	fnDecl  map[*types.Func]*ast.FuncDecl
	Skipped []string // files outside the build (reported as not analysed)
}

func env() []string {
	e := []string{}
	for _, kv := range os.Environ() {
		if strings.HasPrefix(kv, "GOWORK=") || strings.HasPrefix(kv, "GOFLAGS=") ||
			strings.HasPrefix(kv, "GOPROXY=") || strings.HasPrefix(kv, "GOSUMDB=") ||
			strings.HasPrefix(kv, "GOTOOLCHAIN=") {
			continue
		}
		e = append(e, kv)
	}
	return append(e, "GOFLAGS=-mod=mod", "GOPROXY=off", "GOSUMDB=off", "GOTOOLCHAIN=local", "GOWORK=off")
}

// Load parses, type-checks and lowers to SSA every package of the module in dir.
func Load(dir, modPath string, minPkgs int) (*Program, error) {
	cfg := &packages.Config{
		Mode:  packages.LoadAllSyntax,
		Dir:   dir,
		Tests: false,
		Env:   env(),
	}
	initial, err := packages.Load(cfg, "./...")
	if err != nil {
		return nil, fmt.Errorf("packages.Load: %v", err)
	}
	p := &Program{Dir: dir, ModPath: modPath, ByPath: map[string]*packages.Package{},
		SSAPkgs: map[string]*ssa.Package{}, fnDecl: map[*types.Func]*ast.FuncDecl{}}
	var errs []string
	packages.Visit(initial, nil, func(pk *packages.Package) {
		p.ByPath[pk.PkgPath] = pk
		if strings.HasPrefix(pk.PkgPath, modPath) {
			for _, e := range pk.Errors {
				errs = append(errs, e.Error())
			}
		}
	})
	if len(errs) > 0 {
		sort.Strings(errs)
		return nil, fmt.Errorf("type/load errors in %s: %s", dir, strings.Join(errs, "; "))
	}
	for _, pk := range initial {
		if strings.HasPrefix(pk.PkgPath, modPath) {
			p.Pkgs = append(p.Pkgs, pk)
			for _, f := range pk.IgnoredFiles {
				p.Skipped = append(p.Skipped, f)
			}
		}
	}
	sort.Slice(p.Pkgs, func(i, j int) bool { return p.Pkgs[i].PkgPath < p.Pkgs[j].PkgPath })
	if len(p.Pkgs) < minPkgs {
		return nil, fmt.Errorf("loaded %d packages from %s, expected at least %d", len(p.Pkgs), dir, minPkgs)
	}
	if len(p.Pkgs) > 0 {
		p.Fset = p.Pkgs[0].Fset
	}
	prog, _ := ssautil.AllPackages(initial, ssa.InstantiateGenerics)
	prog.Build()
	p.SSA = prog
	for _, pk := range p.Pkgs {
		sp := prog.Package(pk.Types)
		if sp == nil {
			return nil, fmt.Errorf("no SSA package for %s", pk.PkgPath)
		}
		p.SSAPkgs[pk.PkgPath] = sp
		for _, f := range pk.Syntax {
			for _, d := range f.Decls {
				if fd, ok := d.(*ast.FuncDecl); ok {
					if obj, ok := pk.TypesInfo.Defs[fd.Name].(*types.Func); ok {
						p.fnDecl[obj] = fd
					}
				}
			}
		}
	}
	p.AllFns = ssautil.AllFunctions(prog)
	return p, nil
}

// Pkg returns the module package with the given path relative to the module
// root ("" = root package, "align", "io/fasta", ...).
func (p *Program) Pkg(rel string) *packages.Package {
	path := p.ModPath
	if rel != "" {
		path += "/" + rel
	}
	return p.ByPath[path]
}

func (p *Program) SSAPkg(rel string) *ssa.Package {
	path := p.ModPath
	if rel != "" {
		path += "/" + rel
	}
	return p.SSAPkgs[path]
}

// Func resolves "pkgrel.Func" or "pkgrel.(*T).Method" / "pkgrel.(T).Method"
// to its SSA function; nil if absent.
func (p *Program) Func(rel, recv, name string) *ssa.Function {
	f := p.func0(rel, recv, name)
	if f != nil {
		if p.Looked == nil {
			p.Looked = map[*ssa.Function]bool{}
		}
		p.Looked[f] = true
	}
	return f
}

func (p *Program) func0(rel, recv, name string) *ssa.Function {
	sp := p.SSAPkg(rel)
	if sp == nil {
		return nil
	}
	if recv == "" {
		return sp.Func(name)
	}
	ptr := strings.HasPrefix(recv, "*")
	tn := strings.TrimPrefix(recv, "*")
	mem, ok := sp.Members[tn].(*ssa.Type)
	if !ok {
		return nil
	}
	var t types.Type = mem.Type()
	if ptr {
		t = types.NewPointer(t)
	}
	sel := p.SSA.MethodSets.MethodSet(t).Lookup(sp.Pkg, name)
	if sel == nil {
		return nil
	}
	return p.SSA.MethodValue(sel)
}

// Decl returns the syntax of a source function.
func (p *Program) Decl(fn *ssa.Function) *ast.FuncDecl {
	if fn == nil {
		return nil
	}
	if obj, ok := fn.Object().(*types.Func); ok {
		return p.fnDecl[obj]
	}
	return nil
}

func (p *Program) DeclOf(obj *types.Func) *ast.FuncDecl { return p.fnDecl[obj] }

// Pos renders a position relative to the module directory.
func (p *Program) Pos(pos token.Pos) string {
	if !pos.IsValid() {
		return "-"
	}
	ps := p.Fset.Position(pos)
	f := strings.TrimPrefix(ps.Filename, p.Dir+"/")
	return fmt.Sprintf("%s:%d", f, ps.Line)
}

// FuncName gives the stable, human-readable name used in obligation keys:
// "align.(*align).Mask", "distance/dna.DistMatrix", "align.(*phaser).Phase$1".
func (p *Program) FuncName(fn *ssa.Function) string {
	if fn == nil {
		return "<nil>"
	}
	if fn.Parent() != nil {
		if n := p.anonName(fn); n != "" {
			return n
		}
		// anonymous function: parent name + index among the parent's AnonFuncs
		par := fn.Parent()
		idx := 0
		for i, a := range par.AnonFuncs {
			if a == fn {
				idx = i + 1
			}
		}
		return fmt.Sprintf("%s$%d", p.FuncName(par), idx)
	}
	pkg := ""
	if fn.Pkg != nil {
		pkg = strings.TrimPrefix(strings.TrimPrefix(fn.Pkg.Pkg.Path(), p.ModPath), "/")
		if pkg == "" {
			pkg = "main"
		}
	} else if fn.Object() != nil && fn.Object().Pkg() != nil {
		pkg = strings.TrimPrefix(strings.TrimPrefix(fn.Object().Pkg().Path(), p.ModPath), "/")
	}
	if recv := fn.Signature.Recv(); recv != nil {
		t := recv.Type()
		star := ""
		if pt, ok := t.(*types.Pointer); ok {
			t = pt.Elem()
			star = "*"
		}
		tn := t.String()
		if n, ok := t.(*types.Named); ok {
			tn = n.Obj().Name()
		}
		return fmt.Sprintf("%s.(%s%s).%s", pkg, star, tn, fn.Name())
	}
	return pkg + "." + fn.Name()
}

// SrcFuncs lists every source-level function (incl. anonymous ones) of the
// module packages whose relative path has one of the given prefixes (nil = all).
func (p *Program) SrcFuncs(rels ...string) []*ssa.Function {
	var out []*ssa.Function
	for fn := range p.AllFns {
		if fn.Blocks == nil || fn.Synthetic != "" {
			continue
		}
		pk := fn.Pkg
		if pk == nil && fn.Parent() != nil {
			pk = fn.Parent().Pkg
		}
		if pk == nil {
			continue
		}
		path := pk.Pkg.Path()
		if !strings.HasPrefix(path, p.ModPath) {
			continue
		}
		rel := strings.TrimPrefix(strings.TrimPrefix(path, p.ModPath), "/")
		if len(rels) > 0 {
			ok := false
			for _, r := range rels {
				if rel == r {
					ok = true
				}
				if strings.HasSuffix(r, "/...") {
					base := strings.TrimSuffix(r, "/...")
					if rel == base || strings.HasPrefix(rel, base+"/") {
						ok = true
					}
				}
			}
			if !ok {
				continue
			}
		}
		out = append(out, fn)
	}
	sort.Slice(out, func(i, j int) bool {
		a, b := p.FuncName(out[i]), p.FuncName(out[j])
		if a != b {
			return a < b
		}
		return out[i].Pos() < out[j].Pos()
	})
	return out
}

// InModule reports whether fn belongs to a package of the analysed module.
func (p *Program) InModule(fn *ssa.Function) bool {
	for fn != nil && fn.Parent() != nil {
		fn = fn.Parent()
	}
	if fn == nil {
		return false
	}
	if fn.Pkg != nil {
		return strings.HasPrefix(fn.Pkg.Pkg.Path(), p.ModPath)
	}
	if o := fn.Object(); o != nil && o.Pkg() != nil {
		return strings.HasPrefix(o.Pkg().Path(), p.ModPath)
	}
	return false
}

// FileOf returns the *ast.File containing pos.
func (p *Program) FileOf(pos token.Pos) (*packages.Package, *ast.File) {
	for _, pk := range p.Pkgs {
		for _, f := range pk.Syntax {
			if f.Pos() <= pos && pos <= f.End() {
				return pk, f
			}
		}
	}
	return nil, nil
}

// anonName names a function literal after its enclosing top-level declaration
// and its index among the literals of that declaration (source order):
// "cmd.var RootCmd$1", "align.(*phaser).Phase$2". Stable under edits elsewhere.
func (p *Program) anonName(fn *ssa.Function) string {
	pos := fn.Pos()
	if !pos.IsValid() {
		return ""
	}
	pk, f := p.FileOf(pos)
	if f == nil {
		return ""
	}
	rel := strings.TrimPrefix(strings.TrimPrefix(pk.PkgPath, p.ModPath), "/")
	if rel == "" {
		rel = "main"
	}
	for _, d := range f.Decls {
		if d.Pos() > pos || pos > d.End() {
			continue
		}
		name := ""
		var scope ast.Node = d
		switch x := d.(type) {
		case *ast.FuncDecl:
			name = x.Name.Name
			if x.Recv != nil && len(x.Recv.List) > 0 {
				name = "(" + types.ExprString(x.Recv.List[0].Type) + ")." + x.Name.Name
			}
		case *ast.GenDecl:
			for _, sp := range x.Specs {
				if vs, ok := sp.(*ast.ValueSpec); ok && vs.Pos() <= pos && pos <= vs.End() && len(vs.Names) > 0 {
					name = "var " + vs.Names[0].Name
					scope = vs
				}
			}
		}
		if name == "" {
			return ""
		}
		idx, k := 0, 0
		ast.Inspect(scope, func(n ast.Node) bool {
			if fl, ok := n.(*ast.FuncLit); ok {
				k++
				if fl.Pos() == pos || fl.Type.Pos() == pos || fl.Type.Func == pos {
					idx = k
				}
			}
			return true
		})
		if idx == 0 {
			return ""
		}
		return fmt.Sprintf("%s.%s$%d", rel, name, idx)
	}
	return ""
}
