package controls

// ---- size-test-after-insert
func SizeTestedBeforeInsert(col []byte) bool {
	seen := make(map[byte]bool)
	variable := false
	for _, c := range col {
		if len(seen) > 1 {
			variable = true
			break
		}
		if c != '-' {
			seen[c] = true
		}
	}
	return variable
}

func SizeTestedAfterInsert(col []byte) bool {
	seen := make(map[byte]bool)
	variable := false
	for _, c := range col {
		if c != '-' {
			seen[c] = true
		}
		if len(seen) > 1 {
			variable = true
			break
		}
	}
	return variable
}
