package controls

import "strconv"

// TaintedAlloc is a positive control for the tainted-allocation rule: the
// size of the slice comes from ParseInt without an upper bound.
func TaintedAlloc(header string) []string {
	n, err := strconv.ParseInt(header, 10, 64)
	if err != nil || n < 0 {
		return nil
	}
	return make([]string, n)
}

// BoundedAlloc must not be flagged: the size is checked against a constant.
func BoundedAlloc(header string) []string {
	n, err := strconv.ParseInt(header, 10, 64)
	if err != nil || n < 0 || n > 1000 {
		return nil
	}
	return make([]string, n)
}
