package controls

import "errors"

func each(n int, f func(i int) bool) {
	for i := 0; i < n; i++ {
		if f(i) {
			return
		}
	}
}

// ---- stop-on-error: the callback stops the iteration on true
func StopWhenFine(n int) (err error) {
	each(n, func(i int) bool {
		if i == 2 {
			err = errors.New("two")
		}
		return err == nil
	})
	return
}

func StopOnError(n int) (err error) {
	each(n, func(i int) bool {
		if i == 2 {
			err = errors.New("two")
		}
		return err != nil
	})
	return
}
