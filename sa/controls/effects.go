package controls

// Controls for the effects engine (E3): one function that writes its input
// through a callback, one shallow copy, one deep copy (negative control).

type row struct {
	name string
	data []byte
}

type bag struct {
	rows  []*row
	index map[string]*row
}

func (b *bag) each(cb func(name string, data []byte) bool) {
	for _, r := range b.rows {
		if cb(r.name, r.data) {
			return
		}
	}
}

// MutateViaCallback writes the receiver's buffers inside a callback.
func (b *bag) MutateViaCallback() {
	b.each(func(name string, data []byte) bool {
		for i := range data {
			data[i] = '.'
		}
		return false
	})
}

func (b *bag) add(name string, data []byte) {
	r := &row{name, data}
	if b.index == nil {
		b.index = map[string]*row{}
	}
	b.index[name] = r
	b.rows = append(b.rows, r)
}

// ShallowCopy shares the row buffers with the receiver.
func (b *bag) ShallowCopy() *bag {
	c := &bag{}
	b.each(func(name string, data []byte) bool {
		c.add(name, data[0:len(data)])
		return false
	})
	return c
}

// DeepCopy owns its data.
func (b *bag) DeepCopy() *bag {
	c := &bag{}
	b.each(func(name string, data []byte) bool {
		n := make([]byte, len(data))
		copy(n, data)
		c.add(name, n)
		return false
	})
	return c
}

// Count only reads.
func (b *bag) Count() int {
	n := 0
	b.each(func(name string, data []byte) bool {
		n += len(data)
		return false
	})
	return n
}
