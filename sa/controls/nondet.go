package controls

import "time"

// Stamp uses wall-clock time.
func Stamp() int64 { return time.Now().UnixNano() }
