module controls

go 1.21
