// Package controls holds tiny positive examples for zero-expected rules. They
// are analysed on every run; each rule must fire here, otherwise the checker
// itself is broken.
package controls

import (
	"math/rand"
	"sync"
)

func draw() int { return rand.Intn(10) }

// RNGInGoroutine draws from the global stream inside goroutines.
func RNGInGoroutine(n int) []int {
	out := make([]int, n)
	var wg sync.WaitGroup
	for i := 0; i < n; i++ {
		wg.Add(1)
		go func(i int) {
			defer wg.Done()
			out[i] = draw()
		}(i)
	}
	wg.Wait()
	return out
}
