package controls

// ---- normaliser-sum: the divisor is accumulated before / after the element gets its final value
func NormaliserBeforePseudoCount(num []float64, pseudo bool) []float64 {
	freq := make([]float64, len(num))
	sum := 0.0
	for i, v := range num {
		sum += v
		if pseudo {
			num[i] = v + 1.0
		}
	}
	for i := range num {
		freq[i] = num[i] / sum
	}
	return freq
}

func NormaliserAfterPseudoCount(num []float64, pseudo bool) []float64 {
	freq := make([]float64, len(num))
	sum := 0.0
	for i, v := range num {
		if pseudo {
			num[i] = v + 1.0
		}
		sum += num[i]
	}
	for i := range num {
		freq[i] = num[i] / sum
	}
	return freq
}
