package controls

// ---- result-not-kept: the matrix handed to the caller is the model's own buffer
type CachingModel struct{ cache [][]float64 }

func (m *CachingModel) DistKept(n int) [][]float64 {
	if len(m.cache) != n {
		m.cache = make([][]float64, n)
		for i := range m.cache {
			m.cache[i] = make([]float64, n)
		}
	}
	for i := 0; i < n; i++ {
		for j := 0; j < n; j++ {
			m.cache[i][j] = float64(i + j)
		}
	}
	return m.cache
}

func (m *CachingModel) DistFresh(n int) [][]float64 {
	d := make([][]float64, n)
	for i := range d {
		d[i] = make([]float64, n)
		for j := range d[i] {
			d[i][j] = float64(i + j)
		}
	}
	return d
}

func UseCachingModel() int {
	m := &CachingModel{}
	return len(m.DistKept(2)) + len(m.DistFresh(2))
}
