package controls

import (
	"errors"
	"io"
)

// ---- error-not-dropped: the error found in the inner loop is overwritten by the next row
func step(i int) error {
	if i == 3 {
		return errors.New("three")
	}
	return nil
}

func ErrorDroppedByBreak(rows, cols int) (err error) {
	for r := 0; r < rows; r++ {
		for c := 0; c < cols; c++ {
			if err = step(r * c); err != nil {
				break
			}
		}
	}
	return
}

// ---- handed-over-buffer-fresh: one buffer for every row
type rows struct{ data [][]uint8 }

func (r *rows) AddSequenceChar(name string, seq []uint8, comment string) error {
	r.data = append(r.data, seq)
	return nil
}

func SharedRowBuffer(r *rows, n, l int) {
	buf := make([]uint8, l)
	for i := 0; i < n; i++ {
		r.AddSequenceChar("x", buf, "")
	}
}

// ---- close-after-go: the input is closed while the reader goroutine may still run
func CloseAfterGo(f io.ReadCloser, out chan<- byte) {
	go func() {
		b := make([]byte, 1)
		for {
			if _, err := f.Read(b); err != nil {
				close(out)
				return
			}
			out <- b[0]
		}
	}()
	f.Close()
}

// ---- stale-iteration-state: the key of one row is used for the next when kind matches nothing
func StaleKey(names []string, kind func(string) int) []string {
	var key string
	var out []string
	for _, n := range names {
		if kind(n) == 0 {
			key = n + "a"
		} else if kind(n) == 1 {
			key = n + "b"
		}
		out = append(out, key)
	}
	return out
}

// ---- per-iteration-table: counts of the previous column are still there
func StaleColumnTable(cols [][]uint8, limit int) int {
	counts := make([]int, 256)
	n := 0
	for _, col := range cols {
		for _, c := range col {
			counts[c]++
		}
		for _, c := range col {
			if counts[c] > limit {
				n++
			}
		}
	}
	return n
}

// ---- arg-name-order
func window(start, length int) int { return start + 2*length }

func SwappedArguments(start, length int) int { return window(length, start) }

// ---- paired-lines
func HalfRenamedPair(seq1, seq2 []uint8) (bool, bool) {
	gaps1, gaps2 := true, true
	for i := range seq1 {
		gaps1 = gaps1 && seq1[i] == '-'
		gaps2 = gaps2 && seq1[i] == '-'
	}
	return gaps1, gaps2
}
