package controls

// ---- truncated-share
func TruncatedShare(ids []byte, w float64) float64 {
	return w * float64(1/len(ids))
}

func FloatShare(ids []byte, w float64) float64 {
	return w * (1 / float64(len(ids)))
}
