// goalign-sa: static analysis driver. Loads /repo's current working tree once,
// runs the rule set of one property, writes evidence and prints verdict lines.
package main

import (
	"encoding/json"
	"flag"
	"fmt"
	"os"
	"runtime/debug"
	"strconv"

	"goalignsa/core"
	"goalignsa/rules"
)

func main() {
	repo := flag.String("repo", "/repo", "repository to analyse")
	verif := flag.String("verif", "/verif", "verification directory")
	tier := flag.String("tier", "quick", "quick|thorough")
	replay := flag.String("replay", "", "report file to replay")
	list := flag.Bool("list", false, "list properties")
	dump := flag.Bool("dump", false, "print every obligation")
	out := flag.String("out", "", "directory receiving evidence/ and reports/ (default: the verification directory)")
	flag.Parse()

	if *list {
		for _, id := range rules.IDs() {
			fmt.Println(id)
		}
		return
	}
	prop := flag.Arg(0)
	onlyKey := ""
	if *replay != "" {
		b, err := os.ReadFile(*replay)
		if err != nil {
			fmt.Fprintln(os.Stderr, "cannot read report:", err)
			os.Exit(3)
		}
		var rep core.Report
		if err := json.Unmarshal(b, &rep); err != nil {
			fmt.Fprintln(os.Stderr, "bad report:", err)
			os.Exit(3)
		}
		prop = rep.Property
		onlyKey = rep.Key
		if rep.Tier != "" {
			*tier = rep.Tier
		}
	}
	pr := rules.Lookup(prop)
	if pr == nil {
		fmt.Fprintf(os.Stderr, "unknown property %q\n", prop)
		os.Exit(3)
	}
	seed := int64(0)
	if s := os.Getenv("VERIF_SEED"); s != "" {
		seed, _ = strconv.ParseInt(s, 10, 64)
	}
	if t := os.Getenv("VERIF_TIER"); t != "" && *replay == "" && flag.NArg() < 2 {
		// explicit command-line tier wins; VERIF_TIER is informational
		_ = t
	}
	L := core.NewLedger(prop, *tier, seed)
	kf, err := core.ReadFindings(*verif + "/known_findings.txt")
	if err != nil {
		fmt.Fprintln(os.Stderr, "known_findings.txt:", err)
		os.Exit(3)
	}
	if *out == "" {
		*out = *verif
	}
	code := run(pr, L, kf, *repo, *verif, *out, *tier, onlyKey, *dump)
	os.Exit(code)
}

func run(pr *rules.Property, L *core.Ledger, kf *core.KnownFindings, repo, verif, out, tier, onlyKey string, dump bool) (code int) {
	p, err := core.Load(repo, core.ModPath, 23)
	if err != nil {
		// a tree that does not load/type-check cannot be decided: fail, loudly
		L.Unknown("load", repo, "repository loads and type-checks", "-", err.Error())
		return L.Finish(out, repo, kf, onlyKey, pr.Explanation)
	}
	L.Note("loaded %d packages of %s from %s (working tree), %d functions in SSA form; files outside the build: %v",
		len(p.Pkgs), core.ModPath, repo, len(p.AllFns), p.Skipped)
	L.Trusts("go/parser, go/types, go/ssa (golang.org/x/tools v0.29.0)")
	ctx := &rules.Ctx{P: p, L: L, Tier: tier, VerifDir: verif}
	if os.Getenv("VERIF_DEBUG_VIEW") != "" {
		ctx.ViewMode = true // development aid: first pass on the inlined views
	}
	rules.SetTier(tier)
	func() {
		defer func() {
			if r := recover(); r != nil {
				L.Unknown("internal", pr.ID, "analysis completes", "-", fmt.Sprintf("analysis panicked: %v\n%s", r, debug.Stack()))
			}
		}()
		pr.Run(ctx)
	}()
	// Second pass on the inlined views, only when the first pass leaves something open: the
	// functions as written stay the reference, the views can only discharge what a private helper
	// hid from a rule. (Floors are evaluated after the merge.)
	if L.Open() || floorShort(L) {
		L2 := core.NewLedger(pr.ID, tier, L.Seed)
		ctx2 := &rules.Ctx{P: p, L: L2, Tier: tier, VerifDir: verif, ViewMode: true}
		ok := true
		func() {
			defer func() {
				if r := recover(); r != nil {
					ok = false
					L.Note("the pass over the inlined views did not complete (%v); first-pass results kept", r)
				}
			}()
			pr.Run(ctx2)
		}()
		if os.Getenv("VERIF_DEBUG_PASS2") != "" {
			for _, o := range L2.Obs {
				if o.Status != core.Discharged {
					fmt.Fprintf(os.Stderr, "PASS2 %s %s @%s\n    %s\n", o.Status, o.Key(), o.Pos, o.Detail)
				}
			}
		}
		if ok {
			rep, add := L.MergeViewRun(L2, func(o *core.Obligation) bool { return kf.Match(pr.ID, o.Key()) != nil })
			L.Note("second pass over inlined views: %d rule/function group(s) decided there, %d found only there", rep, add)
		}
	}
	if dump {
		for _, o := range L.Obs {
			fmt.Printf("%-10s %s  @%s\n    %s\n", o.Status, o.Key(), o.Pos, o.Detail)
		}
	}
	return L.Finish(out, repo, kf, onlyKey, pr.Explanation)
}

// floorShort: does some rule have fewer obligations than its floor?
func floorShort(L *core.Ledger) bool {
	cnt := map[string]int{}
	for _, o := range L.Obs {
		cnt[o.Rule]++
	}
	for _, f := range L.Floors {
		if cnt[f.Rule] < f.Min {
			return true
		}
	}
	return false
}
