// Package iview builds an *inlined view* of an SSA function: a copy of the function in which
// selected static calls are replaced by the body of the callee (parameters bound to the
// arguments, returns turned into jumps to the continuation, results merged by φ-nodes).
//
// Why: the structural rules describe what one function does; extract-function — the most common
// behaviour-preserving edit — moves part of that into a private helper. The view of the refactored
// function is, up to block boundaries, the SSA of the function before the extraction, so a rule
// that holds on the view holds for the code (inlining preserves the meaning of the program; the
// cases where it would not — defer, recover, recursion — are never inlined).
//
// The original program is not modified. go/ssa offers no API to construct instructions or blocks
// outside the package, so the copies are made by reflection and their unexported bookkeeping
// fields (block, parent, register number, referrers, dominator tree) are written through
// unsafe pointers; golang.org/x/tools is pinned at v0.29.0, and Check() re-validates every
// view (operand dominance, φ arity, terminators, referrer lists) so that a layout change in the
// library shows up as a checker failure, never as a wrong verdict.
package iview

import (
	"fmt"
	"os"
	"go/constant"
	"go/token"
	"go/types"
	"reflect"
	"strings"
	"unsafe"

	"golang.org/x/tools/go/ssa"
)

// Policy decides which static calls are inlined.
type Policy func(caller *ssa.Function, call *ssa.Call, callee *ssa.Function) bool

type Builder struct {
	Should   Policy
	MaxDepth int
	MaxInstr int // callee size limit (instructions)

	cache   map[*ssa.Function]*ssa.Function
	OrigOf  map[*ssa.Function]*ssa.Function
	// OrigInstr: instruction of a view -> the source instruction it was copied from (also through
	// several levels of inlining); lets a rule find "this index expression of helper h" inside the
	// view of a caller.
	OrigInstr map[ssa.Instruction]ssa.Instruction
	Inlined map[*ssa.Function][]string // view -> names of the callees expanded in it
}

func NewBuilder(p Policy) *Builder {
	return &Builder{Should: p, MaxDepth: 3, MaxInstr: 400,
		cache: map[*ssa.Function]*ssa.Function{}, OrigOf: map[*ssa.Function]*ssa.Function{}, Inlined: map[*ssa.Function][]string{},
		OrigInstr: map[ssa.Instruction]ssa.Instruction{}}
}

// ---------------------------------------------------------------------------
// unsafe field access

func setField(ptr interface{}, name string, val interface{}) {
	rv := reflect.ValueOf(ptr).Elem()
	f := rv.FieldByName(name)
	if !f.IsValid() {
		panic(fmt.Sprintf("iview: %T has no field %s", ptr, name))
	}
	w := reflect.NewAt(f.Type(), unsafe.Pointer(f.UnsafeAddr())).Elem()
	if val == nil {
		w.Set(reflect.Zero(f.Type()))
		return
	}
	w.Set(reflect.ValueOf(val))
}

func setDom(b *ssa.BasicBlock, idom *ssa.BasicBlock, children []*ssa.BasicBlock, pre, post int32) {
	rv := reflect.ValueOf(b).Elem()
	d := rv.FieldByName("dom")
	set := func(name string, val reflect.Value) {
		f := d.FieldByName(name)
		reflect.NewAt(f.Type(), unsafe.Pointer(f.UnsafeAddr())).Elem().Set(val)
	}
	if idom == nil {
		set("idom", reflect.Zero(reflect.TypeOf((*ssa.BasicBlock)(nil))))
	} else {
		set("idom", reflect.ValueOf(idom))
	}
	if children == nil {
		children = []*ssa.BasicBlock{}
	}
	set("children", reflect.ValueOf(children))
	set("pre", reflect.ValueOf(pre))
	set("post", reflect.ValueOf(post))
}

// shallowClone copies the struct behind an instruction / value pointer.
func shallowClone(x interface{}) interface{} {
	rv := reflect.ValueOf(x)
	n := reflect.New(rv.Elem().Type())
	n.Elem().Set(rv.Elem())
	return n.Interface()
}

// ---------------------------------------------------------------------------
// cloning

type cloner struct {
	b   *Builder
	nf  *ssa.Function
	vm  map[ssa.Value]ssa.Value
	bm  map[*ssa.BasicBlock]*ssa.BasicBlock
	all []*ssa.BasicBlock
}

func (c *cloner) val(v ssa.Value) ssa.Value {
	if v == nil {
		return nil
	}
	if n, ok := c.vm[v]; ok {
		return n
	}
	return v // constants, globals, functions, builtins, values of enclosing functions
}

// cloneInstr copies one instruction (operands not yet remapped).
func cloneInstr(in ssa.Instruction) ssa.Instruction {
	n := shallowClone(in).(ssa.Instruction)
	switch x := n.(type) {
	case *ssa.Phi:
		x.Edges = append([]ssa.Value(nil), x.Edges...)
	case *ssa.Call:
		x.Call.Args = append([]ssa.Value(nil), x.Call.Args...)
	case *ssa.Go:
		x.Call.Args = append([]ssa.Value(nil), x.Call.Args...)
	case *ssa.Defer:
		x.Call.Args = append([]ssa.Value(nil), x.Call.Args...)
	case *ssa.MakeClosure:
		x.Bindings = append([]ssa.Value(nil), x.Bindings...)
	case *ssa.Return:
		x.Results = append([]ssa.Value(nil), x.Results...)
	case *ssa.Select:
		st := make([]*ssa.SelectState, len(x.States))
		for i, s := range x.States {
			cp := *s
			st[i] = &cp
		}
		x.States = st
	}
	if v, ok := n.(ssa.Value); ok {
		if refs := v.Referrers(); refs != nil {
			*refs = nil
		}
	}
	return n
}

// cloneBlocks copies the blocks of src (a function body) into the cloner's function, mapping
// values through c.vm (which the caller has seeded with parameters / free variables).
func (c *cloner) cloneBlocks(src *ssa.Function, comment string) []*ssa.BasicBlock {
	var out []*ssa.BasicBlock
	for _, b := range src.Blocks {
		nb := &ssa.BasicBlock{Comment: b.Comment + comment}
		c.bm[b] = nb
		out = append(out, nb)
	}
	for _, b := range src.Blocks {
		nb := c.bm[b]
		for _, in := range b.Instrs {
			ni := cloneInstr(in)
			setField(ni, "block", nb)
			if v, ok := in.(ssa.Value); ok {
				c.vm[v] = ni.(ssa.Value)
			}
			if o, ok := c.b.OrigInstr[in]; ok {
				c.b.OrigInstr[ni] = o
			} else {
				c.b.OrigInstr[ni] = in
			}
			nb.Instrs = append(nb.Instrs, ni)
		}
		for _, p := range b.Preds {
			nb.Preds = append(nb.Preds, c.bm[p])
		}
		for _, s := range b.Succs {
			nb.Succs = append(nb.Succs, c.bm[s])
		}
	}
	// operands
	for _, nb := range out {
		for _, ni := range nb.Instrs {
			var rands []*ssa.Value
			for _, p := range ni.Operands(rands) {
				if *p != nil {
					*p = c.val(*p)
				}
			}
			if a, ok := ni.(*ssa.Alloc); ok && !a.Heap {
				c.nf.Locals = append(c.nf.Locals, a)
			}
		}
	}
	return out
}

// View returns the inlined view of fn (cached). fn must have a body.
func (b *Builder) View(fn *ssa.Function) (view *ssa.Function, err error) {
	if v, ok := b.cache[fn]; ok {
		if v == nil {
			return nil, fmt.Errorf("iview: no view of %s", fn)
		}
		return v, nil
	}
	b.cache[fn] = nil
	defer func() {
		if r := recover(); r != nil {
			view, err = nil, fmt.Errorf("iview: %s: %v", fn, r)
		}
	}()
	// views are built from the outermost enclosing function so that closures see the cloned cells
	root := fn
	for root.Parent() != nil {
		root = root.Parent()
	}
	if root != fn {
		if _, err := b.View(root); err != nil {
			return nil, err
		}
		if v := b.cache[fn]; v != nil {
			return v, nil
		}
		return nil, fmt.Errorf("iview: closure %s not reached from the view of %s", fn, root)
	}
	v := b.build(fn, nil, nil)
	postTree(v)
	return v, nil
}

// expandBody inlines calls in the (already cloned) body of nf, threads the jumps this exposes,
// gives nf views of its closures and turns `go f(…)` of private functions into closures.
// fn is the function nf was cloned from (for the inlining policy).
func (b *Builder) expandBody(nf *ssa.Function, fn *ssa.Function) {
	c := &cloner{b: b, nf: nf, vm: map[ssa.Value]ssa.Value{}, bm: map[*ssa.BasicBlock]*ssa.BasicBlock{}}
	// inline
	chain := map[ssa.Instruction][]*ssa.Function{}
	for changed := true; changed; {
		changed = false
		for _, blk := range nf.Blocks {
			for i, in := range blk.Instrs {
				call, ok := in.(*ssa.Call)
				if !ok {
					continue
				}
				g := call.Call.StaticCallee()
				if g == nil || !b.inlinable(fn, call, g, chain[in]) {
					continue
				}
				c.inlineAt(blk, i, call, g, chain)
				b.Inlined[nf] = append(b.Inlined[nf], g.Name())
				changed = true
				break
			}
			if changed {
				break
			}
		}
	}
	if len(b.Inlined[nf]) > 0 {
		dropDeadClosures(nf)
		finish(nf)
		for i := 0; i < 6 && scalarizeStructCopies(nf); i++ {
			finish(nf)
		}
		for i := 0; i < 4 && forwardStructLoads(nf); i++ {
			finish(nf)
			if dropDeadStructs(nf) {
				finish(nf)
			}
		}
		// variables that were cells only because a (now inlined) closure captured them or a (now
		// inlined) helper took their address become registers again
		var cand []*ssa.Alloc
		for _, blk := range nf.Blocks {
			for _, in := range blk.Instrs {
				if a, ok := in.(*ssa.Alloc); ok && promotable(a) {
					if _, isStruct := a.Type().Underlying().(*types.Pointer).Elem().Underlying().(*types.Struct); !isStruct {
						cand = append(cand, a)
					}
				}
			}
		}
		if len(cand) > 0 {
			mem2reg(nf, cand)
			finish(nf)
		}
		if foldConstIfs(nf) {
			finish(nf)
		}
	}
	// jump threading: an inlined `return v, err` followed by the caller's `if err != nil` is a
	// φ tested in the continuation; route every edge whose outcome is known straight to its target
	if len(b.Inlined[nf]) > 0 {
		finish(nf)
		if fuseBlocks(nf) {
			finish(nf)
		}
		nThr := 0
		for i := 0; i < 600 && threadOnce(nf); i++ {
			finish(nf)
			nThr++
		}
		if os.Getenv("VERIF_DEBUG_THREAD") != "" {
			fmt.Fprintf(os.Stderr, "iview: %s: %d threading steps\n", nf.Name(), nThr)
		}
		if simplifyPhis(nf) {
			finish(nf)
		}
		if fuseBlocks(nf) {
			finish(nf)
		}
	}
	// closures: clone each anonymous function created in the (inlined) body, binding the view
	for _, blk := range nf.Blocks {
		for _, in := range blk.Instrs {
			// a function literal without captures is a plain function value
			if _, isMC := in.(*ssa.MakeClosure); !isMC {
				var rands []*ssa.Value
				for _, p := range in.Operands(rands) {
					af, ok := (*p).(*ssa.Function)
					if !ok || af.Parent() == nil || len(af.Blocks) == 0 {
						continue
					}
					if _, isView := b.OrigOf[af]; isView {
						continue
					}
					var av *ssa.Function
					if v, done := b.cache[af]; done && v != nil {
						av = v
					} else {
						av = b.build(af, nf, nil)
					}
					*p = av
					nf.AnonFuncs = append(nf.AnonFuncs, av)
				}
			}
			mc, ok := in.(*ssa.MakeClosure)
			if !ok {
				continue
			}
			af, ok := mc.Fn.(*ssa.Function)
			if !ok {
				continue
			}
			var av *ssa.Function
			if _, isView := b.OrigOf[af]; isView {
				continue
			}
			if v, done := b.cache[af]; done && v != nil {
				av = v
			} else {
				av = b.build(af, nf, nil)
			}
			mc.Fn = av
			nf.AnonFuncs = append(nf.AnonFuncs, av)
		}
	}
	finish(nf) // block/parent links are needed below
	if b.goClosures(nf, fn) {
		finish(nf)
	}
}

// build clones fn (a top-level function or, recursively, one of its closures) and inlines.
func (b *Builder) build(fn *ssa.Function, parentView *ssa.Function, outer map[ssa.Value]ssa.Value) *ssa.Function {
	nf := new(ssa.Function)
	*nf = *fn
	nf.Blocks, nf.Locals, nf.AnonFuncs, nf.Params, nf.FreeVars, nf.Recover = nil, nil, nil, nil, nil, nil
	setField(nf, "referrers", nil)
	if parentView != nil {
		setField(nf, "parent", parentView)
	}
	b.cache[fn] = nf
	b.OrigOf[nf] = fn
	c := &cloner{b: b, nf: nf, vm: map[ssa.Value]ssa.Value{}, bm: map[*ssa.BasicBlock]*ssa.BasicBlock{}}
	for k, v := range outer {
		c.vm[k] = v
	}
	for _, p := range fn.Params {
		np := shallowClone(p).(*ssa.Parameter)
		setField(np, "parent", nf)
		*np.Referrers() = nil
		c.vm[p] = np
		nf.Params = append(nf.Params, np)
	}
	for _, fv := range fn.FreeVars {
		nv := shallowClone(fv).(*ssa.FreeVar)
		setField(nv, "parent", nf)
		*nv.Referrers() = nil
		c.vm[fv] = nv
		nf.FreeVars = append(nf.FreeVars, nv)
	}
	nf.Blocks = c.cloneBlocks(fn, "")
	if fn.Recover != nil {
		nf.Recover = c.bm[fn.Recover]
	}
	b.expandBody(nf, fn)
	finish(nf)
	if err := Check(nf); err != nil {
		panic(err)
	}
	return nf
}

func hasDeferOrRecover(g *ssa.Function) bool {
	for _, b := range g.Blocks {
		for _, in := range b.Instrs {
			switch x := in.(type) {
			case *ssa.Defer, *ssa.RunDefers:
				return true
			case *ssa.Call:
				if bi, ok := x.Call.Value.(*ssa.Builtin); ok && bi.Name() == "recover" {
					return true
				}
			}
		}
	}
	return g.Recover != nil
}

func (b *Builder) inlinable(caller *ssa.Function, call *ssa.Call, g *ssa.Function, ch []*ssa.Function) bool {
	if len(g.Blocks) == 0 || len(ch) >= b.MaxDepth {
		return false
	}
	// a function literal is inlined where it is called with a known closure value (a functional
	// parameter of an inlined helper bound to a literal at the call site)
	if g.Parent() != nil || len(g.FreeVars) > 0 {
		mc, isMC := call.Call.Value.(*ssa.MakeClosure)
		_, isFn := call.Call.Value.(*ssa.Function)
		if !(isMC && len(mc.Bindings) == len(g.FreeVars)) && !(isFn && len(g.FreeVars) == 0) {
			return false
		}
	}
	if len(call.Call.Args) != len(g.Params) || call.Call.IsInvoke() {
		return false
	}
	if g == caller {
		return false
	}
	for _, f := range ch {
		if f == g {
			return false
		}
	}
	if b.Should != nil && !b.Should(caller, call, g) {
		return false
	}
	n, rets := 0, 0
	for _, blk := range g.Blocks {
		n += len(blk.Instrs)
		if len(blk.Instrs) > 0 {
			if _, ok := blk.Instrs[len(blk.Instrs)-1].(*ssa.Return); ok {
				rets++
			}
		}
	}
	if n > b.MaxInstr || rets == 0 || hasDeferOrRecover(g) {
		return false
	}
	return true
}

// inlineAt replaces blk.Instrs[i] (call of g) by the body of g.
func (c *cloner) inlineAt(blk *ssa.BasicBlock, i int, call *ssa.Call, g *ssa.Function, chain map[ssa.Instruction][]*ssa.Function) {
	nf := c.nf
	// continuation block takes the rest of blk
	cont := &ssa.BasicBlock{Comment: "inl.cont." + g.Name()}
	cont.Instrs = append(cont.Instrs, blk.Instrs[i+1:]...)
	for _, in := range cont.Instrs {
		setField(in, "block", cont)
	}
	cont.Succs = blk.Succs
	for _, s := range cont.Succs {
		for k, p := range s.Preds {
			if p == blk {
				s.Preds[k] = cont
			}
		}
	}
	blk.Instrs = blk.Instrs[:i:i]
	blk.Succs = nil
	// clone the callee with parameters bound to the arguments
	sub := &cloner{b: c.b, nf: nf, vm: map[ssa.Value]ssa.Value{}, bm: map[*ssa.BasicBlock]*ssa.BasicBlock{}}
	for k, p := range g.Params {
		sub.vm[p] = call.Call.Args[k]
	}
	if mc, ok := call.Call.Value.(*ssa.MakeClosure); ok {
		for k, fv := range g.FreeVars {
			sub.vm[fv] = mc.Bindings[k]
		}
	}
	blocks := sub.cloneBlocks(g, " ["+g.Name()+"]")
	myChain := append(append([]*ssa.Function(nil), chain[call]...), g)
	for _, nb := range blocks {
		for _, in := range nb.Instrs {
			if _, ok := in.(*ssa.Call); ok {
				chain[in] = myChain
			}
		}
	}
	// enter
	j := &ssa.Jump{}
	setField(j, "block", blk)
	blk.Instrs = append(blk.Instrs, j)
	blk.Succs = []*ssa.BasicBlock{blocks[0]}
	blocks[0].Preds = append(blocks[0].Preds, blk)
	// returns
	type retSite struct {
		from *ssa.BasicBlock
		vals []ssa.Value
	}
	var rets []retSite
	for _, nb := range blocks {
		if len(nb.Instrs) == 0 {
			continue
		}
		r, ok := nb.Instrs[len(nb.Instrs)-1].(*ssa.Return)
		if !ok {
			continue
		}
		rets = append(rets, retSite{nb, r.Results})
		jj := &ssa.Jump{}
		setField(jj, "block", nb)
		nb.Instrs[len(nb.Instrs)-1] = jj
		nb.Succs = []*ssa.BasicBlock{cont}
		cont.Preds = append(cont.Preds, nb)
	}
	nres := g.Signature.Results().Len()
	res := make([]ssa.Value, nres)
	if len(rets) == 1 {
		copy(res, rets[0].vals)
	} else {
		var phis []ssa.Instruction
		for k := 0; k < nres; k++ {
			phi := &ssa.Phi{Comment: "inl." + g.Name() + fmt.Sprintf(".r%d", k)}
			for _, r := range rets {
				phi.Edges = append(phi.Edges, r.vals[k])
			}
			setField(phi, "block", cont)
			setField(phi, "typ", g.Signature.Results().At(k).Type())
			setField(phi, "pos", call.Pos())
			phis = append(phis, phi)
			res[k] = phi
		}
		cont.Instrs = append(phis, cont.Instrs...)
	}
	// uses of the call
	replace := func(old, nw ssa.Value) {
		for _, b2 := range append(append([]*ssa.BasicBlock{cont}, nf.Blocks...), blocks...) {
			for _, in := range b2.Instrs {
				var rands []*ssa.Value
				for _, p := range in.Operands(rands) {
					if *p == old {
						*p = nw
					}
				}
			}
		}
	}
	switch {
	case nres == 1:
		replace(call, res[0])
	case nres > 1:
		for _, b2 := range append([]*ssa.BasicBlock{cont}, nf.Blocks...) {
			kept := b2.Instrs[:0:0]
			for _, in := range b2.Instrs {
				if ex, ok := in.(*ssa.Extract); ok && ex.Tuple == ssa.Value(call) {
					replace(ex, res[ex.Index])
					continue
				}
				kept = append(kept, in)
			}
			b2.Instrs = kept
		}
	}
	// DebugRefs of the call value are dropped with it
	for _, b2 := range append([]*ssa.BasicBlock{cont}, nf.Blocks...) {
		kept := b2.Instrs[:0:0]
		for _, in := range b2.Instrs {
			if d, ok := in.(*ssa.DebugRef); ok && d.X == ssa.Value(call) {
				continue
			}
			kept = append(kept, in)
		}
		b2.Instrs = kept
	}
	// splice the new blocks after blk
	var nb []*ssa.BasicBlock
	for _, x := range nf.Blocks {
		nb = append(nb, x)
		if x == blk {
			nb = append(nb, blocks...)
			nb = append(nb, cont)
		}
	}
	nf.Blocks = nb
}

// ---------------------------------------------------------------------------
// jump threading

// knownTruth: the truth value of condition cond when control enters block b through pred index i
// (φ-nodes of b evaluated on that edge). ok=false when it is not known.
func knownTruth(b *ssa.BasicBlock, i int, cond ssa.Value) (truth bool, ok bool) {
	edgeVal := func(v ssa.Value) ssa.Value {
		if p, isPhi := v.(*ssa.Phi); isPhi && p.Block() == b {
			return p.Edges[i]
		}
		return v
	}
	var nilness func(v ssa.Value) int
	depth := 0
	nilness = func(v ssa.Value) int { // 0 unknown, 1 nil, 2 non-nil
		// a merge of values that all have the same nil-ness
		if phi, ok := v.(*ssa.Phi); ok && phi.Block() != b && depth < 4 && len(phi.Edges) > 0 {
			depth++
			defer func() { depth-- }()
			first := nilness(phi.Edges[0])
			for _, e := range phi.Edges[1:] {
				if first == 0 {
					break
				}
				if nilness(e) != first {
					first = 0
				}
			}
			if first != 0 {
				return first
			}
		}
		// known from a test of this very value that dominates the incoming edge
		// (`if err != nil { return nil, nil, err }` inside the inlined callee)
		from := b.Preds[i]
		for d, child := from.Idom(), from; d != nil; d, child = d.Idom(), d {
			if len(d.Instrs) == 0 {
				continue
			}
			ifi, ok := d.Instrs[len(d.Instrs)-1].(*ssa.If)
			if !ok || d.Succs[0] == d.Succs[1] {
				continue
			}
			bo, ok := ifi.Cond.(*ssa.BinOp)
			if !ok || (bo.Op != token.EQL && bo.Op != token.NEQ) {
				continue
			}
			var other ssa.Value
			switch {
			case bo.X == v:
				other = bo.Y
			case bo.Y == v:
				other = bo.X
			default:
				continue
			}
			if k, isK := other.(*ssa.Const); !isK || !k.IsNil() {
				continue
			}
			// which successor of d leads to `from`?
			viaT := (d.Succs[0] == child || d.Succs[0].Dominates(from)) && len(d.Succs[0].Preds) == 1
			viaF := (d.Succs[1] == child || d.Succs[1].Dominates(from)) && len(d.Succs[1].Preds) == 1
			if viaT == viaF {
				continue
			}
			isNil := (bo.Op == token.EQL) == viaT
			if isNil {
				return 1
			}
			return 2
		}
		switch x := v.(type) {
		case *ssa.Const:
			if x.IsNil() {
				return 1
			}
		case *ssa.MakeInterface:
			return 2
		case *ssa.Call:
			if f := x.Call.StaticCallee(); f != nil && f.Pkg != nil {
				p, n := f.Pkg.Pkg.Path(), f.Name()
				if (p == "fmt" && n == "Errorf") || (p == "errors" && n == "New") {
					return 2
				}
			}
		}
		return 0
	}
	switch x := cond.(type) {
	case *ssa.Phi:
		if x.Block() != b {
			return false, false
		}
		if k, isK := x.Edges[i].(*ssa.Const); isK && k.Value != nil && k.Value.Kind() == constant.Bool {
			return constant.BoolVal(k.Value), true
		}
	case *ssa.UnOp:
		if x.Op == token.NOT && x.Block() == b {
			t, ok := knownTruth(b, i, x.X)
			return !t, ok
		}
	case *ssa.BinOp:
		if x.Block() != b || (x.Op != token.EQL && x.Op != token.NEQ) {
			return false, false
		}
		l, r := edgeVal(x.X), edgeVal(x.Y)
		// a sentinel result: `return -1` / `return pos` of an inlined search compared with the
		// sentinel in the caller. A counter that starts at a non-negative constant and only grows
		// by non-negative constants is never equal to a negative constant.
		if isInt(l.Type()) && isInt(r.Type()) {
			kl, okl := intConst(l)
			kr, okr := intConst(r)
			switch {
			case okl && okr:
				return (kl == kr) == (x.Op == token.EQL), true
			case okl && kl < 0 && nonNegCounter(r, map[ssa.Value]bool{}):
				return x.Op == token.NEQ, true
			case okr && kr < 0 && nonNegCounter(l, map[ssa.Value]bool{}):
				return x.Op == token.NEQ, true
			}
			return false, false
		}
		nl, nr := nilness(l), nilness(r)
		if nl == 0 || nr == 0 || (nl == 2 && nr == 2) {
			return false, false
		}
		eq := nl == nr // both nil
		return eq == (x.Op == token.EQL), true
	}
	return false, false
}

func isInt(t types.Type) bool {
	b, ok := t.Underlying().(*types.Basic)
	return ok && b.Info()&types.IsInteger != 0
}

func intConst(v ssa.Value) (int64, bool) {
	k, ok := v.(*ssa.Const)
	if !ok || k.Value == nil || k.Value.Kind() != constant.Int {
		return 0, false
	}
	return constant.Int64Val(k.Value)
}

// nonNegCounter: v is a non-negative constant, a length, or is built from those by φ-nodes and
// additions of non-negative constants (a loop counter; wrap-around of a counter bounded by a
// length or a slice index is not considered, as in the bounds engine).
func nonNegCounter(v ssa.Value, seen map[ssa.Value]bool) bool {
	if seen[v] {
		return true
	}
	seen[v] = true
	switch x := v.(type) {
	case *ssa.Const:
		k, ok := intConst(x)
		return ok && k >= 0
	case *ssa.Phi:
		for _, e := range x.Edges {
			if !nonNegCounter(e, seen) {
				return false
			}
		}
		return len(x.Edges) > 0
	case *ssa.BinOp:
		if x.Op == token.ADD {
			return nonNegCounter(x.X, seen) && nonNegCounter(x.Y, seen)
		}
	case *ssa.Call:
		if bi, ok := x.Call.Value.(*ssa.Builtin); ok && bi.Name() == "len" {
			return true
		}
	}
	return false
}

// threadOnce finds one block B that ends in an If whose outcome is known on some incoming edge and
// duplicates B for each such edge (φ-nodes replaced by the edge values) with a Jump to the known
// target. SSA form is re-established generically: every value of B that is used outside B is first
// spilled to a fresh cell (stored at the end of B, loaded at each use), the copies of B store their
// own copies, and mem2reg then places the φ-nodes. Requires up-to-date dominators and referrers;
// returns whether anything changed (the function is finished again before returning).
func threadOnce(nf *ssa.Function) bool {
	for _, B := range nf.Blocks {
		if len(B.Instrs) == 0 || len(B.Preds) < 2 || len(B.Instrs) > 16 || B == nf.Blocks[0] {
			continue
		}
		ifi, ok := B.Instrs[len(B.Instrs)-1].(*ssa.If)
		if !ok || B.Succs[0] == B.Succs[1] {
			continue
		}
		T, F := B.Succs[0], B.Succs[1]
		if T == B || F == B {
			continue
		}
		simple := true
		for _, in := range B.Instrs[:len(B.Instrs)-1] {
			switch in.(type) {
			case *ssa.Phi, *ssa.BinOp, *ssa.UnOp, *ssa.Store, *ssa.DebugRef, *ssa.FieldAddr, *ssa.IndexAddr, *ssa.Convert, *ssa.ChangeType, *ssa.MakeInterface, *ssa.Extract:
			default:
				simple = false
			}
		}
		if !simple {
			continue
		}
		// only conditions on the merged results of an inlined call (or of an earlier threading step)
		fromInline := false
		var condPhis func(v ssa.Value, d int)
		condPhis = func(v ssa.Value, d int) {
			if d > 3 {
				return
			}
			switch x := v.(type) {
			case *ssa.Phi:
				if x.Block() == B && (strings.HasPrefix(x.Comment, "inl.") || strings.HasPrefix(x.Comment, "thr")) {
					fromInline = true
				}
				// `return a && b` of an inlined predicate: the short-circuit φ is the call's result
				if x.Block() == B && (x.Comment == "&&" || x.Comment == "||") && strings.Contains(B.Comment, " [") {
					fromInline = true
				}
			case *ssa.BinOp:
				condPhis(x.X, d+1)
				condPhis(x.Y, d+1)
			case *ssa.UnOp:
				condPhis(x.X, d+1)
			}
		}
		condPhis(ifi.Cond, 0)
		if !fromInline {
			continue
		}
		var decided []int
		truth := map[int]bool{}
		for i := range B.Preds {
			if t, ok := knownTruth(B, i, ifi.Cond); ok {
				decided = append(decided, i)
				truth[i] = t
			}
		}
		if len(decided) == 0 {
			continue
		}
		okPreds := true
		for _, i := range decided {
			n := 0
			for _, sc := range B.Preds[i].Succs {
				if sc == B {
					n++
				}
			}
			if n != 1 {
				okPreds = false
			}
		}
		if !okPreds {
			continue
		}
		// ---- 1. spill the values of B that are used outside B
		entry := nf.Blocks[0]
		var cells []*ssa.Alloc
		for _, in := range append([]ssa.Instruction(nil), B.Instrs...) {
			v, isV := in.(ssa.Value)
			if !isV || v.Referrers() == nil {
				continue
			}
			var outside []ssa.Instruction
			for _, u := range *v.Referrers() {
				if u.Block() != B {
					outside = append(outside, u)
				} else if phi, isPhi := u.(*ssa.Phi); isPhi && phi.Block() == B {
					outside = append(outside, u) // B is its own predecessor somewhere up: treat as outside
				}
			}
			if len(outside) == 0 {
				continue
			}
			cell := &ssa.Alloc{Comment: "thr.spill"}
			setField(cell, "typ", types.NewPointer(v.Type()))
			setField(cell, "block", entry)
			entry.Instrs = append([]ssa.Instruction{cell}, entry.Instrs...)
			cells = append(cells, cell)
			st := &ssa.Store{Addr: cell, Val: v}
			setField(st, "block", B)
			B.Instrs = append(B.Instrs[:len(B.Instrs)-1:len(B.Instrs)-1], st, B.Instrs[len(B.Instrs)-1])
			seen := map[ssa.Instruction]bool{}
			for _, u := range outside {
				if seen[u] {
					continue
				}
				seen[u] = true
				if phi, isPhi := u.(*ssa.Phi); isPhi {
					for k, e := range phi.Edges {
						if e != v {
							continue
						}
						pb := phi.Block().Preds[k]
						ld := &ssa.UnOp{Op: token.MUL, X: cell}
						setField(ld, "typ", v.Type())
						setField(ld, "block", pb)
						pb.Instrs = append(pb.Instrs[:len(pb.Instrs)-1:len(pb.Instrs)-1], ld, pb.Instrs[len(pb.Instrs)-1])
						phi.Edges[k] = ld
					}
					continue
				}
				ld := &ssa.UnOp{Op: token.MUL, X: cell}
				setField(ld, "typ", v.Type())
				ub := u.Block()
				setField(ld, "block", ub)
				var out []ssa.Instruction
				for _, x := range ub.Instrs {
					if x == u {
						out = append(out, ld)
					}
					out = append(out, x)
				}
				ub.Instrs = out
				var rands []*ssa.Value
				for _, p := range u.Operands(rands) {
					if *p == v {
						*p = ld
					}
				}
			}
		}
		// ---- 2. one copy of B per decided edge
		isDecided := map[int]bool{}
		for _, i := range decided {
			isDecided[i] = true
		}
		var keep []int
		for i := range B.Preds {
			if !isDecided[i] {
				keep = append(keep, i)
			}
		}
		edgeIndex := func(blk, pred *ssa.BasicBlock) int {
			for k, p := range blk.Preds {
				if p == pred {
					return k
				}
			}
			return -1
		}
		var newBlocks []*ssa.BasicBlock
		for _, i := range decided {
			pred := B.Preds[i]
			target := F
			if truth[i] {
				target = T
			}
			nb := &ssa.BasicBlock{Comment: B.Comment + ".thr"}
			vals := map[ssa.Value]ssa.Value{}
			for _, in := range B.Instrs[:len(B.Instrs)-1] {
				if phi, isPhi := in.(*ssa.Phi); isPhi {
					vals[phi] = phi.Edges[i]
					continue
				}
				ni := cloneInstr(in)
				setField(ni, "block", nb)
				if v, isV := in.(ssa.Value); isV {
					vals[v] = ni.(ssa.Value)
				}
				nb.Instrs = append(nb.Instrs, ni)
			}
			for _, ni := range nb.Instrs {
				var rands []*ssa.Value
				for _, p := range ni.Operands(rands) {
					if *p != nil {
						if r, ok := vals[*p]; ok {
							*p = r
						}
					}
				}
			}
			j := &ssa.Jump{}
			setField(j, "block", nb)
			nb.Instrs = append(nb.Instrs, j)
			nb.Preds = []*ssa.BasicBlock{pred}
			nb.Succs = []*ssa.BasicBlock{target}
			for k, sc := range pred.Succs {
				if sc == B {
					pred.Succs[k] = nb
				}
			}
			// the target gains a predecessor: its φ-nodes take, on the new edge, what they took from B
			bi := edgeIndex(target, B)
			target.Preds = append(target.Preds, nb)
			for _, in := range target.Instrs {
				if phi, isPhi := in.(*ssa.Phi); isPhi {
					e := phi.Edges[bi]
					if r, ok := vals[e]; ok {
						e = r
					}
					phi.Edges = append(phi.Edges, e)
				}
			}
			newBlocks = append(newBlocks, nb)
		}
		// ---- 3. B keeps the undecided edges
		for _, in := range B.Instrs {
			if phi, isPhi := in.(*ssa.Phi); isPhi {
				var e []ssa.Value
				for _, i := range keep {
					e = append(e, phi.Edges[i])
				}
				phi.Edges = e
			}
		}
		var np []*ssa.BasicBlock
		for _, i := range keep {
			np = append(np, B.Preds[i])
		}
		B.Preds = np
		var out []*ssa.BasicBlock
		for _, x := range nf.Blocks {
			out = append(out, x)
			if x == B {
				out = append(out, newBlocks...)
			}
		}
		nf.Blocks = out
		// ---- 4. back to SSA
		finish(nf) // prunes B if it lost all its predecessors, rebuilds dominators and referrers
		var live []*ssa.Alloc
		for _, c := range cells {
			if c.Block() != nil && promotable(c) {
				live = append(live, c)
			} else if refs := c.Referrers(); refs == nil || len(*refs) == 0 {
				removeInstr(entry, map[ssa.Instruction]bool{c: true})
			}
		}
		mem2reg(nf, live)
		finish(nf)
		return true
	}
	return false
}

// foldConstIfs replaces an If on a boolean constant (what remains of `if !found` when an inlined
// function literal always returns true) by a Jump; the edge not taken is removed, unreachable code
// is pruned by finish.
func foldConstIfs(nf *ssa.Function) bool {
	changed := false
	for _, b := range nf.Blocks {
		if len(b.Instrs) == 0 || len(b.Succs) != 2 {
			continue
		}
		ifi, ok := b.Instrs[len(b.Instrs)-1].(*ssa.If)
		if !ok || b.Succs[0] == b.Succs[1] {
			continue
		}
		cond, neg := ifi.Cond, false
		for {
			u, isU := cond.(*ssa.UnOp)
			if !isU || u.Op != token.NOT {
				break
			}
			cond, neg = u.X, !neg
		}
		k, isK := cond.(*ssa.Const)
		if !isK || k.Value == nil || k.Value.Kind() != constant.Bool {
			continue
		}
		truth := constant.BoolVal(k.Value) != neg
		taken, dead := b.Succs[0], b.Succs[1]
		if !truth {
			taken, dead = dead, taken
		}
		j := &ssa.Jump{}
		setField(j, "block", b)
		b.Instrs[len(b.Instrs)-1] = j
		b.Succs = []*ssa.BasicBlock{taken}
		for i := 0; i < len(dead.Preds); i++ {
			if dead.Preds[i] == b {
				dead.Preds = append(dead.Preds[:i:i], dead.Preds[i+1:]...)
				for _, in := range dead.Instrs {
					if phi, ok := in.(*ssa.Phi); ok {
						phi.Edges = append(phi.Edges[:i:i], phi.Edges[i+1:]...)
					}
				}
				break
			}
		}
		changed = true
	}
	return changed
}

// simplifyPhis replaces φ-nodes whose operands are all one value (or the φ itself) by that value.
func simplifyPhis(nf *ssa.Function) bool {
	changed := false
	for again := true; again; {
		again = false
		for _, b := range nf.Blocks {
			for _, in := range b.Instrs {
				phi, ok := in.(*ssa.Phi)
				if !ok {
					continue
				}
				var only ssa.Value
				same := true
				for _, e := range phi.Edges {
					if e == ssa.Value(phi) {
						continue
					}
					if only == nil {
						only = e
					} else if only != e {
						same = false
					}
				}
				if !same || only == nil {
					continue
				}
				for _, blk := range nf.Blocks {
					for _, u := range blk.Instrs {
						var rands []*ssa.Value
						for _, p := range u.Operands(rands) {
							if *p == ssa.Value(phi) {
								*p = only
							}
						}
					}
				}
				kept := b.Instrs[:0:0]
				for _, x := range b.Instrs {
					if x != ssa.Instruction(phi) {
						kept = append(kept, x)
					}
				}
				b.Instrs = kept
				again, changed = true, true
				break
			}
			if again {
				break
			}
		}
	}
	return changed
}

// fuseBlocks merges a block that ends in a Jump into its successor when that successor has no
// other predecessor: inlining splits a block at every call site, and the rules that look at what
// one block does (a step of a loop body) must see the straight-line code as one block again.
func fuseBlocks(nf *ssa.Function) bool {
	changed := false
	for again := true; again; {
		again = false
		for _, a := range nf.Blocks {
			if len(a.Instrs) == 0 || len(a.Succs) != 1 {
				continue
			}
			if _, ok := a.Instrs[len(a.Instrs)-1].(*ssa.Jump); !ok {
				continue
			}
			b := a.Succs[0]
			if b == a || len(b.Preds) != 1 || b == nf.Blocks[0] || b == nf.Recover || a == nf.Recover {
				continue
			}
			// single-predecessor φs are copies
			var rest []ssa.Instruction
			for _, in := range b.Instrs {
				if phi, ok := in.(*ssa.Phi); ok {
					for _, blk := range nf.Blocks {
						for _, u := range blk.Instrs {
							var rands []*ssa.Value
							for _, p := range u.Operands(rands) {
								if *p == ssa.Value(phi) {
									*p = phi.Edges[0]
								}
							}
						}
					}
					continue
				}
				rest = append(rest, in)
			}
			a.Instrs = a.Instrs[:len(a.Instrs)-1]
			for _, in := range rest {
				setField(in, "block", a)
				a.Instrs = append(a.Instrs, in)
			}
			a.Succs = b.Succs
			for _, s := range a.Succs {
				for k, p := range s.Preds {
					if p == b {
						s.Preds[k] = a
					}
				}
			}
			b.Succs, b.Preds, b.Instrs = nil, nil, nil
			var kept []*ssa.BasicBlock
			for _, x := range nf.Blocks {
				if x != b {
					kept = append(kept, x)
				}
			}
			nf.Blocks = kept
			again, changed = true, true
			break
		}
	}
	return changed
}

// finish renumbers blocks and registers, sets parents, rebuilds referrers and the dominator tree.
func finish(nf *ssa.Function) {
	// drop blocks that became unreachable (a threaded branch whose other side is never taken)
	if len(nf.Blocks) > 0 {
		reach := map[*ssa.BasicBlock]bool{}
		var walk func(b *ssa.BasicBlock)
		walk = func(b *ssa.BasicBlock) {
			if reach[b] {
				return
			}
			reach[b] = true
			for _, s := range b.Succs {
				walk(s)
			}
		}
		walk(nf.Blocks[0])
		if nf.Recover != nil {
			walk(nf.Recover) // entered after a recovered panic, not by an edge
		}
		var kept []*ssa.BasicBlock
		for _, b := range nf.Blocks {
			if reach[b] {
				kept = append(kept, b)
				continue
			}
			for _, s := range b.Succs {
				if !reach[s] {
					continue
				}
				for k := 0; k < len(s.Preds); k++ {
					if s.Preds[k] == b {
						s.Preds = append(s.Preds[:k:k], s.Preds[k+1:]...)
						for _, in := range s.Instrs {
							if phi, ok := in.(*ssa.Phi); ok {
								phi.Edges = append(phi.Edges[:k:k], phi.Edges[k+1:]...)
							}
						}
						k--
					}
				}
			}
		}
		nf.Blocks = kept
	}
	for i, b := range nf.Blocks {
		b.Index = i
		setField(b, "parent", nf)
	}
	num := 0
	clear := func(v ssa.Value) {
		if refs := v.Referrers(); refs != nil {
			*refs = nil
		}
	}
	for _, p := range nf.Params {
		clear(p)
	}
	for _, p := range nf.FreeVars {
		clear(p)
	}
	for _, b := range nf.Blocks {
		for _, in := range b.Instrs {
			setField(in, "block", b)
			if v, ok := in.(ssa.Value); ok {
				clear(v)
				switch in.(type) {
				case *ssa.Alloc, *ssa.BinOp, *ssa.Call, *ssa.ChangeInterface, *ssa.ChangeType, *ssa.Convert, *ssa.MultiConvert,
					*ssa.SliceToArrayPointer, *ssa.Extract, *ssa.Field, *ssa.FieldAddr, *ssa.Index, *ssa.IndexAddr, *ssa.Lookup,
					*ssa.MakeChan, *ssa.MakeClosure, *ssa.MakeInterface, *ssa.MakeMap, *ssa.MakeSlice, *ssa.Next, *ssa.Phi,
					*ssa.Range, *ssa.Select, *ssa.Slice, *ssa.TypeAssert, *ssa.UnOp:
					setField(in, "num", num)
					num++
				}
			}
		}
	}
	for _, b := range nf.Blocks {
		for _, in := range b.Instrs {
			var rands []*ssa.Value
			for _, p := range in.Operands(rands) {
				if *p == nil {
					continue
				}
				if refs := (*p).Referrers(); refs != nil {
					// only values that belong to this function (or are its parameters / free variables)
					switch x := (*p).(type) {
					case ssa.Instruction:
						if x.Parent() == nf {
							*refs = append(*refs, in)
						}
					case *ssa.Parameter:
						if x.Parent() == nf {
							*refs = append(*refs, in)
						}
					case *ssa.FreeVar:
						if x.Parent() == nf {
							*refs = append(*refs, in)
						}
					}
				}
			}
		}
	}
	buildDom(nf)
}

// buildDom: iterative dominators (Cooper, Harvey, Kennedy) + pre/post numbering of the tree.
func buildDom(nf *ssa.Function) {
	n := len(nf.Blocks)
	if n == 0 {
		return
	}
	// reverse postorder
	order := make([]*ssa.BasicBlock, 0, n)
	seen := make([]bool, n)
	var dfs func(b *ssa.BasicBlock)
	dfs = func(b *ssa.BasicBlock) {
		seen[b.Index] = true
		for _, s := range b.Succs {
			if !seen[s.Index] {
				dfs(s)
			}
		}
		order = append(order, b)
	}
	// the recover block has no predecessor; like go/ssa, hang it below the entry block
	rec := nf.Recover
	if rec != nil && len(rec.Preds) == 0 {
		seen[nf.Blocks[0].Index] = true
		dfs(rec)
		seen[nf.Blocks[0].Index] = false
	}
	dfs(nf.Blocks[0])
	rpoNum := make([]int, n)
	for i := range rpoNum {
		rpoNum[i] = -1
	}
	for i := range order {
		rpoNum[order[len(order)-1-i].Index] = i
	}
	idom := make([]*ssa.BasicBlock, n)
	entry := nf.Blocks[0]
	idom[entry.Index] = entry
	intersect := func(a, b *ssa.BasicBlock) *ssa.BasicBlock {
		for a != b {
			for rpoNum[a.Index] > rpoNum[b.Index] {
				a = idom[a.Index]
			}
			for rpoNum[b.Index] > rpoNum[a.Index] {
				b = idom[b.Index]
			}
		}
		return a
	}
	for changed := true; changed; {
		changed = false
		for i := len(order) - 1; i >= 0; i-- {
			b := order[i]
			if b == entry {
				continue
			}
			var nw *ssa.BasicBlock
			if b == rec && len(b.Preds) == 0 {
				nw = entry
			}
			for _, p := range b.Preds {
				if rpoNum[p.Index] < 0 || idom[p.Index] == nil {
					continue
				}
				if nw == nil {
					nw = p
				} else {
					nw = intersect(p, nw)
				}
			}
			if nw != nil && idom[b.Index] != nw {
				idom[b.Index] = nw
				changed = true
			}
		}
	}
	children := make([][]*ssa.BasicBlock, n)
	for _, b := range nf.Blocks {
		if b != entry && idom[b.Index] != nil {
			children[idom[b.Index].Index] = append(children[idom[b.Index].Index], b)
		}
	}
	pre := make([]int32, n)
	post := make([]int32, n)
	var k int32
	var num func(b *ssa.BasicBlock)
	num = func(b *ssa.BasicBlock) {
		pre[b.Index] = k
		k++
		for _, ch := range children[b.Index] {
			num(ch)
		}
		post[b.Index] = k
		k++
	}
	num(entry)
	for _, b := range nf.Blocks {
		var id *ssa.BasicBlock
		if b != entry {
			id = idom[b.Index]
		}
		setDom(b, id, children[b.Index], pre[b.Index], post[b.Index])
	}
}

// Check validates a view: every block ends in a terminator consistent with its successors, φ-nodes
// have one edge per predecessor, every operand defined in the function dominates its use, Block()
// and Parent() are consistent, and referrer lists agree with the operands.
func Check(nf *ssa.Function) error {
	for i, b := range nf.Blocks {
		if b.Index != i || b.Parent() != nf {
			return fmt.Errorf("iview: block %d of %s has wrong index/parent", i, nf)
		}
		if len(b.Instrs) == 0 {
			return fmt.Errorf("iview: empty block %d in %s", i, nf)
		}
		switch t := b.Instrs[len(b.Instrs)-1].(type) {
		case *ssa.If:
			if len(b.Succs) != 2 {
				return fmt.Errorf("iview: If with %d successors in %s", len(b.Succs), nf)
			}
		case *ssa.Jump:
			if len(b.Succs) != 1 {
				return fmt.Errorf("iview: Jump with %d successors in %s", len(b.Succs), nf)
			}
		case *ssa.Return, *ssa.Panic:
			if len(b.Succs) != 0 {
				return fmt.Errorf("iview: Return/Panic with successors in %s", nf)
			}
		default:
			return fmt.Errorf("iview: block %d of %s ends in %T", i, nf, t)
		}
		for _, s := range b.Succs {
			found := false
			for _, p := range s.Preds {
				if p == b {
					found = true
				}
			}
			if !found {
				return fmt.Errorf("iview: edge %d→%d of %s is not mirrored in Preds", b.Index, s.Index, nf)
			}
		}
		for k, in := range b.Instrs {
			if in.Block() != b || in.Parent() != nf {
				return fmt.Errorf("iview: instruction %d.%d of %s has wrong block/parent", i, k, nf)
			}
			if phi, ok := in.(*ssa.Phi); ok && len(phi.Edges) != len(b.Preds) {
				return fmt.Errorf("iview: φ with %d edges in a block with %d predecessors (%s)", len(phi.Edges), len(b.Preds), nf)
			}
			var rands []*ssa.Value
			for oi, p := range in.Operands(rands) {
				if *p == nil {
					continue
				}
				def, ok := (*p).(ssa.Instruction)
				if !ok {
					switch x := (*p).(type) {
					case *ssa.Parameter:
						if x.Parent() != nf {
							return fmt.Errorf("iview: foreign parameter %s used in %s", x.Name(), nf)
						}
					case *ssa.FreeVar:
						if x.Parent() != nf {
							return fmt.Errorf("iview: foreign free variable %s used in %s", x.Name(), nf)
						}
					}
					continue
				}
				if def.Parent() != nf {
					return fmt.Errorf("iview: operand %s of %s.%d.%d belongs to %s", (*p).Name(), nf, i, k, def.Parent())
				}
				useBlock := b
				if phi, isPhi := in.(*ssa.Phi); isPhi {
					_ = phi
					useBlock = b.Preds[oi]
					if !(def.Block() == useBlock || def.Block().Dominates(useBlock)) {
						return fmt.Errorf("iview: φ operand %s does not dominate its edge in %s", (*p).Name(), nf)
					}
					continue
				}
				if def.Block() == useBlock {
					di := -1
					for q, x := range b.Instrs {
						if x == def {
							di = q
						}
					}
					if di < 0 || di >= k {
						return fmt.Errorf("iview: operand %s used before its definition in %s block %d", (*p).Name(), nf, i)
					}
				} else if !def.Block().Dominates(useBlock) {
					return fmt.Errorf("iview: operand %s (block %d) does not dominate its use in block %d of %s", (*p).Name(), def.Block().Index, i, nf)
				}
			}
		}
	}
	return nil
}

var _ = token.NoPos
