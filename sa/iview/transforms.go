package iview

import (
	"go/token"
	"go/types"

	"golang.org/x/tools/go/ssa"
)

// Three more normalisations of a view, each an equivalence that a maintainer's clean-up uses in the
// other direction:
//
//   goClosures   `go f(a, b)` for a private function f of the package becomes `go func(){…}()`
//                with the body of f, the arguments captured (an argument that is the address of a
//                local is captured as that variable; any other argument is first stored in a fresh
//                cell that nothing writes afterwards). The concurrency rules then see the worker
//                exactly as if it had been written as a function literal.
//   sroa         a local struct variable that is only ever used field by field (also through
//                closures that capture it) is split into one variable per field: grouping locals
//                into a struct and back does not change what the rules see.
//   mem2reg      a local variable whose address is only loaded from and stored to becomes SSA
//                registers and φ-nodes (the classic construction on the dominance frontier), so
//                that a variable that was a register before its grouping is one again.
//
// They run after inlining, on the view tree (a function and its closures).

// ---------------------------------------------------------------------------
// helpers to construct instructions

func newAlloc(t types.Type, comment string, heap bool, pos token.Pos) *ssa.Alloc {
	a := &ssa.Alloc{Comment: comment, Heap: heap}
	setField(a, "typ", types.NewPointer(t))
	setField(a, "pos", pos)
	return a
}

func newStore(addr, val ssa.Value, pos token.Pos) *ssa.Store {
	s := &ssa.Store{Addr: addr, Val: val}
	setField(s, "pos", pos)
	return s
}

func newLoad(addr ssa.Value, pos token.Pos) *ssa.UnOp {
	u := &ssa.UnOp{Op: token.MUL, X: addr}
	setField(u, "typ", addr.Type().Underlying().(*types.Pointer).Elem())
	setField(u, "pos", pos)
	return u
}

func newFreeVar(name string, t types.Type, parent *ssa.Function, pos token.Pos) *ssa.FreeVar {
	fv := &ssa.FreeVar{}
	setField(fv, "name", name)
	setField(fv, "typ", t)
	setField(fv, "pos", pos)
	setField(fv, "parent", parent)
	return fv
}

func insertBefore(b *ssa.BasicBlock, at ssa.Instruction, ins ...ssa.Instruction) {
	var out []ssa.Instruction
	for _, in := range b.Instrs {
		if in == at {
			for _, n := range ins {
				setField(n, "block", b)
				out = append(out, n)
			}
		}
		out = append(out, in)
	}
	b.Instrs = out
}

func removeInstr(b *ssa.BasicBlock, del map[ssa.Instruction]bool) {
	kept := b.Instrs[:0:0]
	for _, in := range b.Instrs {
		if !del[in] {
			kept = append(kept, in)
		}
	}
	b.Instrs = kept
}

// replaceUses rewrites every operand equal to old in fn (and only there).
func replaceUses(fn *ssa.Function, old, nw ssa.Value) {
	for _, b := range fn.Blocks {
		for _, in := range b.Instrs {
			var rands []*ssa.Value
			for _, p := range in.Operands(rands) {
				if *p == old {
					*p = nw
				}
			}
		}
	}
}

func tree(root *ssa.Function) []*ssa.Function {
	var out []*ssa.Function
	var rec func(f *ssa.Function)
	seen := map[*ssa.Function]bool{}
	rec = func(f *ssa.Function) {
		if seen[f] {
			return
		}
		seen[f] = true
		out = append(out, f)
		for _, a := range f.AnonFuncs {
			rec(a)
		}
	}
	rec(root)
	return out
}

// ---------------------------------------------------------------------------
// goClosures

func (b *Builder) goClosures(nf *ssa.Function, orig *ssa.Function) bool {
	changed := false
	for _, blk := range nf.Blocks {
		for _, in := range blk.Instrs {
			switch g := in.(type) {
			case *ssa.Go:
				if g.Call.IsInvoke() {
					continue
				}
				callee := g.Call.StaticCallee()
				if callee == nil || callee.Parent() != nil || len(callee.Blocks) == 0 || len(callee.FreeVars) > 0 {
					continue
				}
				if _, isFn := g.Call.Value.(*ssa.Function); !isFn {
					continue // already a closure
				}
				if len(g.Call.Args) != len(callee.Params) {
					continue
				}
				if b.Should != nil && !b.Should(orig, nil, callee) {
					continue
				}
				sig := types.NewSignatureType(nil, nil, nil, nil, callee.Signature.Results(), false)
				cv, bindings := b.closureOf(nf, callee, g.Call.Args, len(callee.Params), sig, g, "$go")
				mc := &ssa.MakeClosure{Fn: cv, Bindings: bindings}
				setField(mc, "typ", cv.Signature)
				setField(mc, "pos", g.Pos())
				insertBefore(g.Block(), g, mc)
				g.Call.Value = mc
				g.Call.Args = nil
				changed = true
			case *ssa.MakeClosure:
				// a method value x.m: the synthetic wrapper that calls m on the bound receiver is
				// replaced by the body of m with the receiver captured
				w, ok := g.Fn.(*ssa.Function)
				if !ok || len(g.Bindings) != 1 || len(w.FreeVars) != 1 || len(w.Blocks) != 1 || !isBoundWrapper(w) {
					continue
				}
				var m *ssa.Function
				for _, wi := range w.Blocks[0].Instrs {
					if call, ok := wi.(*ssa.Call); ok {
						m = call.Call.StaticCallee()
					}
				}
				if m == nil || m.Parent() != nil || len(m.Blocks) == 0 || len(m.FreeVars) > 0 || len(m.Params) != len(w.Params)+1 {
					continue
				}
				if b.Should != nil && !b.Should(orig, nil, m) {
					continue
				}
				cv, bindings := b.closureOf(nf, m, []ssa.Value{g.Bindings[0]}, 1, w.Signature, g, "$bound")
				g.Fn = cv
				g.Bindings = bindings
				changed = true
			}
		}
	}
	return changed
}

func isBoundWrapper(w *ssa.Function) bool {
	return w.Synthetic != "" && len(w.Synthetic) >= 5 && w.Synthetic[:5] == "bound"
}

// closureOf clones callee as a closure of nf: its first nCap parameters become free variables
// bound to args (see goClosures for how), the others stay parameters. Cells for the captured
// values are inserted into nf; the closure is registered as an anonymous function of nf.
func (b *Builder) closureOf(nf, callee *ssa.Function, args []ssa.Value, nCap int, sig *types.Signature, at ssa.Instruction, suffix string) (*ssa.Function, []ssa.Value) {
	cv := new(ssa.Function)
	*cv = *callee
	cv.Blocks, cv.Locals, cv.AnonFuncs, cv.Params, cv.FreeVars, cv.Recover = nil, nil, nil, nil, nil, nil
	setField(cv, "referrers", nil)
	setField(cv, "parent", nf)
	setField(cv, "name", callee.Name()+suffix)
	cv.Signature = sig
	b.OrigOf[cv] = callee
	c := &cloner{b: b, nf: cv, vm: map[ssa.Value]ssa.Value{}, bm: map[*ssa.BasicBlock]*ssa.BasicBlock{}}
	var pre []ssa.Instruction   // in nf, before `at`
	var entry []ssa.Instruction // loads at the entry of the closure
	var bindings []ssa.Value
	for k, p := range callee.Params {
		if k >= nCap {
			np := shallowClone(p).(*ssa.Parameter)
			setField(np, "parent", cv)
			*np.Referrers() = nil
			c.vm[p] = np
			cv.Params = append(cv.Params, np)
			continue
		}
		arg := args[k]
		if a, isAlloc := arg.(*ssa.Alloc); isAlloc {
			fv := newFreeVar(a.Comment, a.Type(), cv, p.Pos())
			if a.Comment == "" || a.Comment == "complit" {
				setField(fv, "name", p.Name())
			}
			cv.FreeVars = append(cv.FreeVars, fv)
			bindings = append(bindings, a)
			c.vm[p] = fv
			continue
		}
		// an argument that is the current content of a variable nothing writes any more (every
		// store to it dominates `at`, closures only read it) is captured as that variable
		var wrap *ssa.ChangeType // e.g. chan T -> chan<- T at the call
		inner := arg
		if ct, isCT := arg.(*ssa.ChangeType); isCT {
			wrap, inner = ct, ct.X
		}
		if ld, isLoad := inner.(*ssa.UnOp); isLoad && ld.Op == token.MUL {
			if cellX, isA := ld.X.(*ssa.Alloc); isA && stableCell(cellX, at) {
				fv := newFreeVar(cellX.Comment, cellX.Type(), cv, p.Pos())
				if cellX.Comment == "" {
					setField(fv, "name", p.Name())
				}
				cv.FreeVars = append(cv.FreeVars, fv)
				bindings = append(bindings, cellX)
				l2 := newLoad(fv, p.Pos())
				entry = append(entry, l2)
				c.vm[p] = l2
				if wrap != nil {
					w2 := cloneInstr(wrap).(*ssa.ChangeType)
					w2.X = l2
					entry = append(entry, w2)
					c.vm[p] = w2
				}
				continue
			}
		}
		// otherwise a fresh cell, created where the argument becomes available (at function entry
		// for a parameter or constant), not at the go statement: a `go` in a loop then shares one
		// cell written once before the loop, like a captured variable
		cell := newAlloc(p.Type(), p.Name(), true, at.Pos())
		st := newStore(cell, arg, at.Pos())
		placed := false
		if def, isInstr := arg.(ssa.Instruction); isInstr && def.Block() != nil && def.Parent() == nf {
			db := def.Block()
			var out []ssa.Instruction
			_, defIsPhi := def.(*ssa.Phi)
			for _, x := range db.Instrs {
				_, isPhi := x.(*ssa.Phi)
				if !placed && defIsPhi && !isPhi {
					setField(cell, "block", db)
					setField(st, "block", db)
					out = append(out, cell, st)
					placed = true
				}
				out = append(out, x)
				if !placed && !defIsPhi && x == def {
					setField(cell, "block", db)
					setField(st, "block", db)
					out = append(out, cell, st)
					placed = true
				}
			}
			if placed {
				db.Instrs = out
			}
		} else if !isInstr {
			eb := nf.Blocks[0]
			setField(cell, "block", eb)
			setField(st, "block", eb)
			eb.Instrs = append([]ssa.Instruction{cell, st}, eb.Instrs...)
			placed = true
		}
		if !placed {
			pre = append(pre, cell, st)
		}
		fv := newFreeVar(p.Name(), cell.Type(), cv, p.Pos())
		cv.FreeVars = append(cv.FreeVars, fv)
		bindings = append(bindings, cell)
		ld := newLoad(fv, p.Pos())
		entry = append(entry, ld)
		c.vm[p] = ld
	}
	cv.Blocks = c.cloneBlocks(callee, "")
	if callee.Recover != nil {
		cv.Recover = c.bm[callee.Recover]
	}
	for _, e := range entry {
		setField(e, "block", cv.Blocks[0])
	}
	cv.Blocks[0].Instrs = append(entry, cv.Blocks[0].Instrs...)
	b.expandBody(cv, callee)
	if len(pre) > 0 {
		insertBefore(at.Block(), at, pre...)
	}
	nf.AnonFuncs = append(nf.AnonFuncs, cv)
	finish(cv)
	if err := Check(cv); err != nil {
		panic(err)
	}
	return cv, bindings
}

// stableCell: every store to the cell dominates the instruction at, and closures that capture the
// cell never store to it (nor hand it on).
func stableCell(a *ssa.Alloc, at ssa.Instruction) bool {
	refs := a.Referrers()
	if refs == nil {
		return false
	}
	dom := func(x ssa.Instruction) bool {
		if x.Block() == at.Block() {
			for _, in := range x.Block().Instrs {
				if in == x {
					return true
				}
				if in == at {
					return false
				}
			}
		}
		return x.Block().Dominates(at.Block())
	}
	for _, r := range *refs {
		switch x := r.(type) {
		case *ssa.Store:
			if x.Addr != ssa.Value(a) || !dom(x) {
				return false
			}
		case *ssa.UnOp, *ssa.DebugRef:
		case *ssa.MakeClosure:
			cf, ok := x.Fn.(*ssa.Function)
			if !ok {
				return false
			}
			for k, bnd := range x.Bindings {
				if bnd != ssa.Value(a) || k >= len(cf.FreeVars) {
					continue
				}
				// the closure body may not have its referrers computed yet: scan it
				fv := cf.FreeVars[k]
				for _, b := range cf.Blocks {
					for _, in := range b.Instrs {
						switch y := in.(type) {
						case *ssa.Store:
							if y.Addr == ssa.Value(fv) {
								return false
							}
						case *ssa.MakeClosure:
							for _, bb := range y.Bindings {
								if bb == ssa.Value(fv) {
									return false
								}
							}
						}
					}
				}
			}
		default:
			return false
		}
	}
	return true
}

// ---------------------------------------------------------------------------
// sroa

type sroaUse struct {
	fn *ssa.Function
	v  ssa.Value // the alloc, or a free variable bound (transitively) to it
}

// fieldOnly: every use of v in fn is a FieldAddr on it, a DebugRef, or a capture by a closure of the
// tree in which the same holds for the free variable. Collects the (function, value) pairs.
func fieldOnly(v ssa.Value, fn *ssa.Function, acc *[]sroaUse, depth int) bool {
	if depth > 4 {
		return false
	}
	*acc = append(*acc, sroaUse{fn, v})
	refs := v.Referrers()
	if refs == nil {
		return true
	}
	for _, r := range *refs {
		switch x := r.(type) {
		case *ssa.FieldAddr:
			if x.X != v {
				return false
			}
		case *ssa.DebugRef:
		case *ssa.MakeClosure:
			cf, ok := x.Fn.(*ssa.Function)
			if !ok {
				return false
			}
			for k, bnd := range x.Bindings {
				if bnd != v {
					continue
				}
				if k >= len(cf.FreeVars) || !fieldOnly(cf.FreeVars[k], cf, acc, depth+1) {
					return false
				}
			}
		default:
			return false
		}
	}
	return true
}

func sroa(root *ssa.Function) bool {
	changed := false
	// a closure function created at more than one place cannot have its free variables split
	nMake := map[*ssa.Function]int{}
	for _, f := range tree(root) {
		for _, blk := range f.Blocks {
			for _, in := range blk.Instrs {
				if mc, ok := in.(*ssa.MakeClosure); ok {
					if cf, ok := mc.Fn.(*ssa.Function); ok {
						nMake[cf]++
					}
				}
			}
		}
	}
	for _, f := range tree(root) {
		for _, blk := range f.Blocks {
			for _, in := range blk.Instrs {
				a, ok := in.(*ssa.Alloc)
				if !ok {
					continue
				}
				st, ok := a.Type().Underlying().(*types.Pointer).Elem().Underlying().(*types.Struct)
				if !ok || st.NumFields() == 0 || st.NumFields() > 16 {
					continue
				}
				var uses []sroaUse
				if !fieldOnly(a, f, &uses, 0) || len(uses) == 0 {
					continue
				}
				shared := false
				for _, u := range uses {
					if u.fn != f && nMake[u.fn] != 1 {
						shared = true
					}
				}
				if shared {
					continue
				}
				splitStruct(a, f, st)
				changed = true
				finishTree(root)
				return true // referrers changed: restart
			}
		}
	}
	return changed
}

// splitStruct replaces v (an alloc in fn, or a free variable of fn) by one value per field and
// returns them (nil for unused fields are still created: simpler and harmless).
func splitStruct(v ssa.Value, fn *ssa.Function, st *types.Struct) {
	n := st.NumFields()
	parts := make([]ssa.Value, n)
	switch x := v.(type) {
	case *ssa.Alloc:
		var ins []ssa.Instruction
		for i := 0; i < n; i++ {
			na := newAlloc(st.Field(i).Type(), st.Field(i).Name(), x.Heap, x.Pos())
			sroaMade[na] = true
			parts[i] = na
			ins = append(ins, na)
			if !x.Heap {
				fn.Locals = append(fn.Locals, na)
			}
		}
		insertBefore(x.Block(), x, ins...)
	case *ssa.FreeVar:
		var fvs []*ssa.FreeVar
		for _, old := range fn.FreeVars {
			if old != x {
				fvs = append(fvs, old)
				continue
			}
			for i := 0; i < n; i++ {
				nv := newFreeVar(st.Field(i).Name(), types.NewPointer(st.Field(i).Type()), fn, x.Pos())
				parts[i] = nv
				fvs = append(fvs, nv)
			}
		}
		fn.FreeVars = fvs
	}
	del := map[ssa.Instruction]bool{}
	refs := append([]ssa.Instruction(nil), *v.Referrers()...)
	for _, r := range refs {
		switch u := r.(type) {
		case *ssa.FieldAddr:
			replaceUses(fn, u, parts[u.Field])
			del[u] = true
		case *ssa.DebugRef:
			del[u] = true
		case *ssa.MakeClosure:
			cf := u.Fn.(*ssa.Function)
			// splice bindings; split the corresponding free variables of the closure first
			var nb []ssa.Value
			for k, bnd := range u.Bindings {
				if bnd != v {
					nb = append(nb, bnd)
					continue
				}
				splitStruct(cf.FreeVars[k], cf, st)
				nb = append(nb, parts...)
			}
			u.Bindings = nb
		}
	}
	if a, ok := v.(*ssa.Alloc); ok {
		del[a] = true
		var loc []*ssa.Alloc
		for _, l := range fn.Locals {
			if l != a {
				loc = append(loc, l)
			}
		}
		fn.Locals = loc
	}
	for _, b := range fn.Blocks {
		removeInstr(b, del)
	}
}

// ---------------------------------------------------------------------------
// mem2reg

func promotable(a *ssa.Alloc) bool {
	refs := a.Referrers()
	if refs == nil {
		return false
	}
	n := 0
	for _, r := range *refs {
		switch x := r.(type) {
		case *ssa.UnOp:
			if x.Op != token.MUL || x.X != ssa.Value(a) {
				return false
			}
			n++
		case *ssa.Store:
			if x.Addr != ssa.Value(a) || x.Val == ssa.Value(a) {
				return false
			}
			n++
		case *ssa.DebugRef:
		default:
			return false
		}
	}
	return n > 0
}

// mem2reg promotes the given allocs of fn (all must be promotable) to registers.
func mem2reg(fn *ssa.Function, allocs []*ssa.Alloc) {
	if len(allocs) == 0 {
		return
	}
	nb := len(fn.Blocks)
	// dominance frontiers
	df := make([]map[*ssa.BasicBlock]bool, nb)
	for i := range df {
		df[i] = map[*ssa.BasicBlock]bool{}
	}
	for _, b := range fn.Blocks {
		if len(b.Preds) < 2 {
			continue
		}
		for _, p := range b.Preds {
			for r := p; r != nil && r != b.Idom(); r = r.Idom() {
				df[r.Index][b] = true
			}
		}
	}
	idx := map[*ssa.Alloc]int{}
	for i, a := range allocs {
		idx[a] = i
	}
	// φ placement
	phiFor := map[*ssa.Phi]int{}
	phis := make([]map[*ssa.BasicBlock]*ssa.Phi, len(allocs))
	for i, a := range allocs {
		phis[i] = map[*ssa.BasicBlock]*ssa.Phi{}
		var work []*ssa.BasicBlock
		seen := map[*ssa.BasicBlock]bool{}
		work = append(work, a.Block())
		for _, r := range *a.Referrers() {
			if s, ok := r.(*ssa.Store); ok {
				work = append(work, s.Block())
			}
		}
		for len(work) > 0 {
			b := work[len(work)-1]
			work = work[:len(work)-1]
			for d := range df[b.Index] {
				if phis[i][d] != nil {
					continue
				}
				// the variable must be in scope: the alloc dominates the join
				if !(a.Block() == d || a.Block().Dominates(d)) {
					continue
				}
				phi := &ssa.Phi{Comment: a.Comment, Edges: make([]ssa.Value, len(d.Preds))}
				setField(phi, "typ", a.Type().Underlying().(*types.Pointer).Elem())
				setField(phi, "pos", a.Pos())
				setField(phi, "block", d)
				phis[i][d] = phi
				phiFor[phi] = i
				if !seen[d] {
					seen[d] = true
					work = append(work, d)
				}
			}
		}
	}
	for i := range allocs {
		for d, phi := range phis[i] {
			d.Instrs = append([]ssa.Instruction{phi}, d.Instrs...)
		}
	}
	// renaming
	del := map[ssa.Instruction]bool{}
	repl := map[ssa.Value]ssa.Value{} // load -> value
	var rename func(b *ssa.BasicBlock, cur []ssa.Value)
	rename = func(b *ssa.BasicBlock, cur []ssa.Value) {
		cur = append([]ssa.Value(nil), cur...)
		for _, in := range b.Instrs {
			switch x := in.(type) {
			case *ssa.Phi:
				if i, ok := phiFor[x]; ok {
					cur[i] = x
				}
			case *ssa.Alloc:
				if i, ok := idx[x]; ok {
					cur[i] = ssa.NewConst(nil, x.Type().Underlying().(*types.Pointer).Elem())
					del[x] = true
				}
			case *ssa.UnOp:
				if a, ok := x.X.(*ssa.Alloc); ok && x.Op == token.MUL {
					if i, ok := idx[a]; ok {
						repl[x] = cur[i]
						del[x] = true
					}
				}
			case *ssa.Store:
				if a, ok := x.Addr.(*ssa.Alloc); ok {
					if i, ok := idx[a]; ok {
						v := x.Val
						for {
							r, ok := repl[v]
							if !ok {
								break
							}
							v = r
						}
						cur[i] = v
						del[x] = true
					}
				}
			case *ssa.DebugRef:
				if a, ok := x.X.(*ssa.Alloc); ok {
					if _, ok := idx[a]; ok {
						del[x] = true
					}
				}
			}
		}
		for _, s := range b.Succs {
			k := -1
			for j, p := range s.Preds {
				if p == b {
					k = j // (a block that is twice a predecessor gets the same value on both edges)
					for i := range allocs {
						if phi := phis[i][s]; phi != nil {
							v := cur[i]
							if v == nil {
								v = ssa.NewConst(nil, allocs[i].Type().Underlying().(*types.Pointer).Elem())
							}
							phi.Edges[j] = v
						}
					}
				}
			}
			_ = k
		}
		for _, ch := range b.Dominees() {
			rename(ch, cur)
		}
	}
	rename(fn.Blocks[0], make([]ssa.Value, len(allocs)))
	// apply load replacements (chase chains)
	final := func(v ssa.Value) ssa.Value {
		for {
			r, ok := repl[v]
			if !ok {
				return v
			}
			v = r
		}
	}
	for _, b := range fn.Blocks {
		for _, in := range b.Instrs {
			var rands []*ssa.Value
			for _, p := range in.Operands(rands) {
				if *p != nil {
					if _, ok := repl[*p]; ok {
						*p = final(*p)
					}
				}
			}
		}
	}
	for _, b := range fn.Blocks {
		removeInstr(b, del)
	}
	var loc []*ssa.Alloc
	for _, l := range fn.Locals {
		if _, ok := idx[l]; !ok {
			loc = append(loc, l)
		}
	}
	fn.Locals = loc
	// φ clean-up: unused φs and φs whose operands are all one value (or the φ itself)
	for again := true; again; {
		again = false
		finish(fn)
		for _, b := range fn.Blocks {
			for _, in := range b.Instrs {
				phi, ok := in.(*ssa.Phi)
				if !ok {
					continue
				}
				if _, mine := phiFor[phi]; !mine {
					continue
				}
				if refs := phi.Referrers(); refs == nil || len(*refs) == 0 {
					removeInstr(b, map[ssa.Instruction]bool{phi: true})
					again = true
					continue
				}
				var only ssa.Value
				same := true
				for _, e := range phi.Edges {
					if e == ssa.Value(phi) {
						continue
					}
					if only == nil {
						only = e
					} else if only != e {
						same = false
					}
				}
				if same && only != nil {
					replaceUses(fn, phi, only)
					removeInstr(b, map[ssa.Instruction]bool{phi: true})
					again = true
				}
			}
			if again {
				break
			}
		}
	}
}

func finishTree(root *ssa.Function) {
	for _, f := range tree(root) {
		finish(f)
	}
}

// postTree runs sroa and mem2reg on a finished view tree; newCells are the allocs sroa created.
func postTree(root *ssa.Function) {
	any := false
	for i := 0; i < 16 && sroa(root); i++ {
		any = true
	}
	if !any {
		return
	}
	finishTree(root)
	for _, f := range tree(root) {
		var cand []*ssa.Alloc
		for _, b := range f.Blocks {
			for _, in := range b.Instrs {
				if a, ok := in.(*ssa.Alloc); ok && sroaMade[a] && promotable(a) {
					cand = append(cand, a)
				}
			}
		}
		mem2reg(f, cand)
		finish(f)
	}
	for _, f := range tree(root) {
		if err := Check(f); err != nil {
			panic(err)
		}
	}
}

// sroaMade marks the allocs created by splitStruct: only those are re-promoted (a variable the
// author wrote as address-taken stays as written).
var sroaMade = map[*ssa.Alloc]bool{}

// dropDeadClosures removes MakeClosure instructions nothing uses any more (their only use was a
// call that has been inlined).
func dropDeadClosures(nf *ssa.Function) {
	used := map[ssa.Value]bool{}
	for _, b := range nf.Blocks {
		for _, in := range b.Instrs {
			var rands []*ssa.Value
			for _, p := range in.Operands(rands) {
				if *p != nil {
					used[*p] = true
				}
			}
		}
	}
	for _, b := range nf.Blocks {
		del := map[ssa.Instruction]bool{}
		for _, in := range b.Instrs {
			if mc, ok := in.(*ssa.MakeClosure); ok && !used[mc] {
				del[mc] = true
			}
		}
		if len(del) > 0 {
			removeInstr(b, del)
		}
	}
}

// forwardStructLoads resolves reads of the fields of local struct values that are only ever built
// and copied: a struct filled field by field (a composite literal) and read as a whole, passed by
// value to an inlined helper or to a method with a value receiver (go/ssa spills such a parameter
// into a fresh local and reads its fields from there), or returned by value from an inlined
// constructor. A read of field i is replaced by the value stored to field i of the struct the copy
// chain starts from, when that store is the only one to the field and dominates the read, and
// nothing else can write the structs involved (their addresses are only used for field addresses,
// whole loads, whole stores of such values, and debug info). Fields never stored read as zero.
// Requires referrers and dominators (finish). Returns whether anything changed.
func forwardStructLoads(nf *ssa.Function) bool {
	type shape struct {
		ok          bool
		fieldStores map[int][]*ssa.Store
		fieldLoads  map[int][]*ssa.UnOp
		wholeStores []*ssa.Store
		wholeLoads  []*ssa.UnOp
		st          *types.Struct
	}
	shapes := map[*ssa.Alloc]*shape{}
	shapeOf := func(a *ssa.Alloc) *shape {
		if sh, ok := shapes[a]; ok {
			return sh
		}
		sh := &shape{fieldStores: map[int][]*ssa.Store{}, fieldLoads: map[int][]*ssa.UnOp{}}
		shapes[a] = sh
		st, isStruct := a.Type().Underlying().(*types.Pointer).Elem().Underlying().(*types.Struct)
		if !isStruct || a.Referrers() == nil {
			return sh
		}
		sh.st = st
		sh.ok = true
		for _, r := range *a.Referrers() {
			switch x := r.(type) {
			case *ssa.FieldAddr:
				if x.X != ssa.Value(a) || x.Referrers() == nil {
					sh.ok = false
					continue
				}
				for _, u := range *x.Referrers() {
					switch y := u.(type) {
					case *ssa.Store:
						if y.Addr != ssa.Value(x) {
							sh.ok = false
						} else {
							sh.fieldStores[x.Field] = append(sh.fieldStores[x.Field], y)
						}
					case *ssa.UnOp:
						if y.Op != token.MUL {
							sh.ok = false
						} else {
							sh.fieldLoads[x.Field] = append(sh.fieldLoads[x.Field], y)
						}
					case *ssa.DebugRef:
					default:
						sh.ok = false // the address of a field escapes
					}
				}
			case *ssa.UnOp:
				if x.Op == token.MUL && x.X == ssa.Value(a) {
					sh.wholeLoads = append(sh.wholeLoads, x)
				} else {
					sh.ok = false
				}
			case *ssa.Store:
				if x.Addr == ssa.Value(a) && x.Val != ssa.Value(a) {
					sh.wholeStores = append(sh.wholeStores, x)
				} else {
					sh.ok = false
				}
			case *ssa.DebugRef:
			default:
				sh.ok = false
			}
		}
		return sh
	}
	dominates := func(s ssa.Instruction, l ssa.Instruction) bool {
		if s.Block() == l.Block() {
			for _, x := range s.Block().Instrs {
				if x == s {
					return true
				}
				if x == l {
					return false
				}
			}
		}
		return s.Block().Dominates(l.Block())
	}
	// fieldAt: the value of field i of alloc a as seen by the instruction at
	var fieldAt func(a *ssa.Alloc, i int, at ssa.Instruction, depth int) ssa.Value
	// fieldOf: field i of the struct value S
	var fieldOf func(S ssa.Value, i int, depth int) ssa.Value
	fieldAt = func(a *ssa.Alloc, i int, at ssa.Instruction, depth int) ssa.Value {
		sh := shapeOf(a)
		if !sh.ok || depth > 6 {
			return nil
		}
		switch {
		case len(sh.wholeStores) == 0:
			switch ss := sh.fieldStores[i]; len(ss) {
			case 0:
				return ssa.NewConst(nil, sh.st.Field(i).Type())
			case 1:
				if dominates(ss[0], at) {
					return ss[0].Val
				}
			}
		case len(sh.wholeStores) == 1 && len(sh.fieldStores[i]) == 0:
			if dominates(sh.wholeStores[0], at) {
				return fieldOf(sh.wholeStores[0].Val, i, depth+1)
			}
		}
		return nil
	}
	fieldOf = func(S ssa.Value, i int, depth int) ssa.Value {
		if depth > 6 {
			return nil
		}
		if l, ok := S.(*ssa.UnOp); ok && l.Op == token.MUL {
			if a, ok := l.X.(*ssa.Alloc); ok {
				return fieldAt(a, i, l, depth)
			}
		}
		return nil
	}
	changed := false
	for _, b := range nf.Blocks {
		for _, in := range append([]ssa.Instruction(nil), b.Instrs...) {
			switch x := in.(type) {
			case *ssa.Field:
				if v := fieldOf(x.X, x.Field, 0); v != nil {
					replaceUses(nf, x, v)
					removeInstr(x.Block(), map[ssa.Instruction]bool{x: true})
					changed = true
				}
			case *ssa.UnOp:
				if x.Op != token.MUL {
					continue
				}
				fa, ok := x.X.(*ssa.FieldAddr)
				if !ok {
					continue
				}
				a, ok := fa.X.(*ssa.Alloc)
				if !ok {
					continue
				}
				// only copies are read through: a struct with field stores of its own keeps its loads
				// unless the store is unique and dominates (handled by fieldAt)
				if v := fieldAt(a, fa.Field, x, 0); v != nil && v != ssa.Value(x) {
					replaceUses(nf, x, v)
					removeInstr(x.Block(), map[ssa.Instruction]bool{x: true})
					changed = true
				}
			}
		}
	}
	return changed
}

// dropDeadStructs removes local structs that are only written (their reads have been forwarded):
// the alloc, its field addresses, the stores to them and whole stores into it.
func dropDeadStructs(nf *ssa.Function) bool {
	changed := false
	for _, b := range nf.Blocks {
		for _, in := range append([]ssa.Instruction(nil), b.Instrs...) {
			a, ok := in.(*ssa.Alloc)
			if !ok || a.Referrers() == nil {
				continue
			}
			if _, isStruct := a.Type().Underlying().(*types.Pointer).Elem().Underlying().(*types.Struct); !isStruct {
				continue
			}
			dead := map[ssa.Instruction]bool{a: true}
			onlyWritten := true
			for _, r := range *a.Referrers() {
				switch x := r.(type) {
				case *ssa.FieldAddr:
					dead[x] = true
					if x.Referrers() != nil {
						for _, u := range *x.Referrers() {
							switch y := u.(type) {
							case *ssa.Store:
								if y.Addr != ssa.Value(x) {
									onlyWritten = false
								}
								dead[y] = true
							case *ssa.DebugRef:
								dead[y] = true
							default:
								onlyWritten = false
							}
						}
					}
				case *ssa.Store:
					if x.Addr != ssa.Value(a) {
						onlyWritten = false
					}
					dead[x] = true
				case *ssa.DebugRef:
					dead[x] = true
				default:
					onlyWritten = false
				}
			}
			if !onlyWritten {
				continue
			}
			for _, blk := range nf.Blocks {
				removeInstr(blk, dead)
			}
			var loc []*ssa.Alloc
			for _, l := range nf.Locals {
				if l != a {
					loc = append(loc, l)
				}
			}
			nf.Locals = loc
			changed = true
		}
	}
	return changed
}

// scalarizeStructCopies rewrites whole-struct reads of local structs into field reads: for a load
// L = *a of a local struct a, every `Field(L, i)` becomes a load of &a.i placed where L is, and
// every copy `*b = L` into another local struct becomes one field store per field. What remains
// is a struct that is only used field by field, which sroa splits and mem2reg turns into registers
// (with φ-nodes where a field has a default and a conditional override). Loads with other uses
// (passed to a call that was not inlined, returned, boxed) are left alone.
// Requires referrers (finish). Returns whether anything changed.
func scalarizeStructCopies(nf *ssa.Function) bool {
	changed := false
	for _, b := range nf.Blocks {
		for _, in := range append([]ssa.Instruction(nil), b.Instrs...) {
			L, ok := in.(*ssa.UnOp)
			if !ok || L.Op != token.MUL || L.Referrers() == nil {
				continue
			}
			a, ok := L.X.(*ssa.Alloc)
			if !ok {
				continue
			}
			st, ok := a.Type().Underlying().(*types.Pointer).Elem().Underlying().(*types.Struct)
			if !ok {
				continue
			}
			// every use of L is a Field read or a copy into a local struct alloc
			okUses := len(*L.Referrers()) > 0
			for _, u := range *L.Referrers() {
				switch x := u.(type) {
				case *ssa.Field:
					if x.X != ssa.Value(L) {
						okUses = false
					}
				case *ssa.Store:
					if _, isAlloc := x.Addr.(*ssa.Alloc); !isAlloc || x.Val != ssa.Value(L) {
						okUses = false
					}
				case *ssa.DebugRef:
				default:
					okUses = false
				}
			}
			if !okUses {
				continue
			}
			// field loads at the position of L
			fieldLoad := map[int]*ssa.UnOp{}
			var pre []ssa.Instruction
			get := func(i int) *ssa.UnOp {
				if ld, ok := fieldLoad[i]; ok {
					return ld
				}
				fa := &ssa.FieldAddr{X: a, Field: i}
				setField(fa, "typ", types.NewPointer(st.Field(i).Type()))
				setField(fa, "pos", L.Pos())
				ld := newLoad(fa, L.Pos())
				pre = append(pre, fa, ld)
				fieldLoad[i] = ld
				return ld
			}
			del := map[ssa.Instruction]bool{L: true}
			type copyTo struct {
				st *ssa.Store
			}
			var copies []copyTo
			for _, u := range append([]ssa.Instruction(nil), *L.Referrers()...) {
				switch x := u.(type) {
				case *ssa.Field:
					replaceUses(nf, x, get(x.Field))
					del[x] = true
				case *ssa.Store:
					copies = append(copies, copyTo{x})
				case *ssa.DebugRef:
					del[x] = true
				}
			}
			for _, cp := range copies {
				dst := cp.st.Addr.(*ssa.Alloc)
				var ins []ssa.Instruction
				for i := 0; i < st.NumFields(); i++ {
					ld := get(i)
					fb := &ssa.FieldAddr{X: dst, Field: i}
					setField(fb, "typ", types.NewPointer(st.Field(i).Type()))
					setField(fb, "pos", cp.st.Pos())
					ins = append(ins, fb, newStore(fb, ld, cp.st.Pos()))
				}
				insertBefore(cp.st.Block(), cp.st, ins...)
				del[cp.st] = true
			}
			insertBefore(L.Block(), L, pre...)
			for _, blk := range nf.Blocks {
				removeInstr(blk, del)
			}
			changed = true
		}
	}
	return changed
}
