#!/bin/bash
# Entry point of every registered check.
#   ./check.sh <Cnn> quick|thorough      analyse /repo's working tree for one property
#   ./check.sh --replay <report.json>    re-analyse /repo and re-evaluate one reported obligation
# exit 0 = property's decided clauses hold (known findings are printed, not alarms)
# exit 1 = VIOLATION lines printed; exit 2 = checker broken (control did not fire); exit 3 = usage
set -u
cd "$(dirname "$0")"
VERIF="$(pwd)"
REPO="${VERIF_REPO:-/repo}"
export GOFLAGS=-mod=mod GOPROXY=off GOSUMDB=off GOTOOLCHAIN=local GOWORK=off
unset GOWORK_FILE 2>/dev/null
BIN="$VERIF/bin/goalign-sa"
build() {
  # rebuild the analyser when missing or older than its sources (module cache only)
  if [ ! -x "$BIN" ] || [ -n "$(find "$VERIF/sa" -name '*.go' -newer "$BIN" -print -quit 2>/dev/null)" ]; then
    (cd "$VERIF/sa" && go build -o "$BIN" ./cmd/goalign-sa) || { echo "cannot build analyser" >&2; exit 3; }
  fi
}
build
if [ "${1:-}" = "--replay" ]; then
  exec "$BIN" -repo "$REPO" -verif "$VERIF" -out "${VERIF_OUT:-$VERIF}" -replay "$2"
fi
ID="${1:?usage: check.sh <Cnn> quick|thorough}"
TIER="${2:-${VERIF_TIER:-quick}}"
exec "$BIN" -repo "$REPO" -verif "$VERIF" -out "${VERIF_OUT:-$VERIF}" -tier "$TIER" "$ID"
